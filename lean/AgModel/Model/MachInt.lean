import AgModel.Gen.Consts
import AgModel.Model.Votor
import AgModel.Model.ParentReady
import AgModel.Model.Pool
import AgModel.Model.Route
import AgModel.Model.PoolTrack
/-!
# Machine-integer layer

The other models (`Votor`, `ParentReady`, `Pool`, `PoolTrack`, `Route`, ...) compute on unbounded `Nat`.  The code
computes on `u64` (`Slot`, `Stake`, `ValidatorIndex`), `usize` (`SliceIndex`, `ShredIndex`; 64 bit on every supported
target) and `u128` (`Fraction::is_met`), with `overflow-checks = true` also in the release profile: `+ - *` panic
on overflow, `/ %` panic on a zero divisor, `checked_add(..).expect(..)` panics on `None`.

This file models every such expression twice:

* the **machine form** on `UInt64` (u128 values: `Nat` with an explicit `< 2^128` check), returning `Option`:
  `none` = the Rust expression panics;
* the **Nat form**: the function the existing models use (re-used from `Model/*.lean`, not re-defined, wherever
  one exists).

`Proofs/MachInt.lean` / `Props/C10MachInt.lean` relate the two for ALL u64 inputs: when exactly the machine form
panics, and that otherwise `toNat` of its result is the Nat form of the `toNat`s of its inputs.
The profile modelled is the one the nodes and the harness run: overflow checks on, debug assertions off.
-/
namespace AgModel.MachInt
open AgModel

/-! ### checked primitive operations (`overflow-checks = true`) -/

/-- `a + b` on u64: panics (`none`) on overflow. Also `a.checked_add(b)` (then `none` = `None`). -/
def cadd (a b : UInt64) : Option UInt64 := if a.toNat + b.toNat < 2 ^ 64 then some (a + b) else none
/-- `a - b` on u64 / `a.checked_sub(b)` -/
def csub (a b : UInt64) : Option UInt64 := if b.toNat ≤ a.toNat then some (a - b) else none
/-- `a * b` on u64 -/
def cmul (a b : UInt64) : Option UInt64 := if a.toNat * b.toNat < 2 ^ 64 then some (a * b) else none
/-- `a / b` on u64: panics on `b == 0` -/
def cdiv (a b : UInt64) : Option UInt64 := if b = 0 then none else some (a / b)
/-- `a % b` on u64: panics on `b == 0` -/
def cmod (a b : UInt64) : Option UInt64 := if b = 0 then none else some (a % b)
/-- `(a as u128) * (b as u128)`: a u128 value is a `Nat`, the overflow check is explicit. -/
def mul128 (a b : UInt64) : Option Nat := if a.toNat * b.toNat < 2 ^ 128 then some (a.toNat * b.toNat) else none

/-! ### constants as machine integers -/

def W : Nat := Gen.SLOTS_PER_WINDOW
def E : Nat := Gen.SLOTS_PER_EPOCH
def W64 : UInt64 := UInt64.ofNat Gen.SLOTS_PER_WINDOW
def E64 : UInt64 := UInt64.ofNat Gen.SLOTS_PER_EPOCH
def MAX : UInt64 := UInt64.ofNat (2 ^ 64 - 1)

/-! ### `src/types/slot.rs` -/

/-- `Slot::new(x).inner()` -/
def new (x : UInt64) : UInt64 := x
/-- `Slot::genesis()` -/
def genesis : UInt64 := 0
/-- `first_slot_in_window`: `window = self.0 / W; Self(window * W)` -/
def first (s : UInt64) : Option UInt64 := do
  let w ← cdiv s W64
  cmul w W64
/-- `last_slot_in_window` (after fix cd019dd): `first.0 + (W - 1)` -/
def last (s : UInt64) : Option UInt64 := do
  let f ← first s
  let k ← csub W64 1
  cadd f k
/-- `last_slot_in_window` BEFORE cd019dd: `Self(first.0 + W).prev()` (start of the next window, minus one) -/
def lastOld (s : UInt64) : Option UInt64 := do
  let f ← first s
  let n ← cadd f W64
  csub n 1
/-- `is_start_of_window`: `u64::is_multiple_of` (`rhs == 0 => self == 0`, never panics) -/
def isStart (s : UInt64) : Bool := if W64 = 0 then s == 0 else s % W64 == 0
/-- `next`: `checked_add(1).expect(..)` -/
def next (s : UInt64) : Option UInt64 := cadd s 1
/-- `prev`: `checked_sub(1).expect(..)` -/
def prev (s : UInt64) : Option UInt64 := csub s 1
/-- `is_genesis_window` -/
def isGenesisWindow (s : UInt64) : Option Bool := (cdiv s W64).map (· == 0)
/-- `is_genesis` -/
def isGenesis (s : UInt64) : Bool := s == 0

/-- the inclusive range `lo..=hi` as a list (empty if `hi < lo`) -/
def rangeIncl (lo hi : UInt64) : List UInt64 :=
  (List.range (hi.toNat + 1 - lo.toNat)).map (fun i => lo + UInt64.ofNat i)

/-- `slots_in_window` (after cd019dd), collected: `(start.0 ..= start.0 + (W - 1))` -/
def slotsInWindow (s : UInt64) : Option (List UInt64) := do
  let st ← first s
  let k ← csub W64 1
  let hi ← cadd st k
  some (rangeIncl st hi)
/-- `slots_in_window` BEFORE cd019dd: `(start.0 .. start.0 + W)` -/
def slotsInWindowOld (s : UInt64) : Option (List UInt64) := do
  let st ← first s
  let hi ← cadd st W64
  some ((List.range (hi.toNat - st.toNat)).map (fun i => st + UInt64.ofNat i))

/-- `RangeFrom<u64>::next` k times from `start`: each call computes `Step::forward(start, 1)` (overflow-checked:
    `#[rustc_inherit_overflow_checks]`) BEFORE it yields `start`, so yielding `u64::MAX` panics. -/
def rangeFromTake (start : UInt64) : Nat → Option (List UInt64)
  | 0 => some []
  | k + 1 => do
    let n ← cadd start 1
    let rest ← rangeFromTake n k
    some (start :: rest)
/-- `future_slots().take(k)`, collected: `(self.0 + 1 ..)` -/
def futureSlots (s : UInt64) (k : Nat) : Option (List UInt64) := do
  let st ← cadd s 1
  rangeFromTake st k

/-! ### `src/types/fraction.rs`, `src/consensus/epoch_info.rs` -/

/-- `Fraction::is_met` (release: the `debug_assert!(total != 0)` is compiled out) -/
def isMet (num den value total : UInt64) : Option Bool := do
  let l ← mul128 value den
  let r ← mul128 total num
  some (decide (l ≥ r))
/-- `Fraction::is_met` with u64 instead of u128 products (what the comment in the source warns against) -/
def isMetU64 (num den value total : UInt64) : Option Bool := do
  let l ← cmul value den
  let r ← cmul total num
  some (decide (l ≥ r))

/-- `validators.iter().map(|v| v.stake).sum()` (`derive_more::Sum` = fold with the overflow-checked `+` from 0) -/
def sumFrom (acc : UInt64) : List UInt64 → Option UInt64
  | [] => some acc
  | x :: xs => do
    let a ← cadd acc x
    sumFrom a xs
/-- `EpochInfo::new(..).total_stake()`; `none` = `EpochInfo::new` panics -/
def totalStake (stakes : List UInt64) : Option UInt64 := sumFrom 0 stakes

def u (n : Nat) : UInt64 := UInt64.ofNat n
def isWeakest (total stake : UInt64) : Option Bool :=
  isMet (u Gen.WEAKEST_QUORUM_THRESHOLD_NUM) (u Gen.WEAKEST_QUORUM_THRESHOLD_DEN) stake total
def isWeak (total stake : UInt64) : Option Bool :=
  isMet (u Gen.WEAK_QUORUM_THRESHOLD_NUM) (u Gen.WEAK_QUORUM_THRESHOLD_DEN) stake total
def isQuorum (total stake : UInt64) : Option Bool :=
  isMet (u Gen.QUORUM_THRESHOLD_NUM) (u Gen.QUORUM_THRESHOLD_DEN) stake total
def isStrong (total stake : UInt64) : Option Bool :=
  isMet (u Gen.STRONG_QUORUM_THRESHOLD_NUM) (u Gen.STRONG_QUORUM_THRESHOLD_DEN) stake total

/-- `EpochInfo::leader(slot).id`: `window = slot / W; leader_id = window % (validators.len() as u64)`;
    `n` = number of validators (usize -> u64 is lossless); the index `leader_id as usize < n` never fails. -/
def leader (n s : UInt64) : Option UInt64 := do
  let w ← cdiv s W64
  cmod w n

/-! ### raw slot arithmetic in pool / finality / parent-ready / votor / block producer -/

/-- `pool.rs:472,505`: `Slot::new(self.finalized_slot().inner() + 2 * SLOTS_PER_EPOCH)` -/
def farFuture (fin : UInt64) : Option UInt64 := do
  let t ← cmul 2 E64
  cadd fin t
/-- `add_cert` / `add_vote`: `slot < first_unpruned || slot >= slot_far_in_future`; `none` = the call panics -/
def outOfBounds (firstUnpruned fin slot : UInt64) : Option Bool := do
  let ff ← farFuture fin
  some (slot < firstUnpruned || slot ≥ ff)
/-- Nat form of the same (`PoolTrack.outOfBounds` on the two fields it reads) -/
def natOutOfBounds (firstUnpruned fin slot : Nat) : Bool :=
  slot < firstUnpruned || slot ≥ fin + 2 * Gen.SLOTS_PER_EPOCH

/-- `recover_from_standstill` (`pool.rs:606,607,621`): `slot.next()` of the finalized slot (three times) -/
def standstillSlot (fin : UInt64) : Option UInt64 := next fin
/-- `FinalityTracker::prune` (`finality_tracker.rs:389,399`): `next` of the first unpruned slot, then of every
    decided slot of the prefix: `k` iterations of the loop -/
def pruneCursor (firstUnpruned : UInt64) : Nat → Option UInt64
  | 0 => next firstUnpruned
  | k + 1 => do
    let c ← pruneCursor firstUnpruned k
    next c
/-- `votor.rs:349,361` / `block_producer.rs:518,547`: `slot.prev()` evaluated only when `slot` is not the first
    slot of its window (votor) / is a window start outside the genesis window (block producer) -/
def votorParentSlot (slot : UInt64) : Option (Option UInt64) := do
  let f ← first slot
  if slot == f then some none else (prev slot).map some
def producerPrevWindowLast (firstSlot : UInt64) : Option (Option UInt64) := do
  let g ← isGenesisWindow firstSlot
  if g then some none else (prev firstSlot).map some

/-- `shredder.rs:193` `index_in_slot`: `slice_index.inner() * TOTAL_SHREDS + *shred_index` (usize) -/
def indexInSlot (slice shred : UInt64) : Option UInt64 := do
  let m ← cmul slice (u Gen.TOTAL_SHREDS)
  cadd m shred
/-- `slot_block_data.rs:422`: `last_slice.inner() + 1` (usize) -/
def sliceCount (lastSlice : UInt64) : Option UInt64 := cadd lastSlice 1
/-- `SliceIndex::new` / `ShredIndex::new` after `v as usize` (lossless on 64-bit targets) -/
def sliceIndexNew (v : UInt64) : Option UInt64 := if v ≥ u Gen.MAX_SLICES_PER_BLOCK then none else some v
def shredIndexNew (v : UInt64) : Option UInt64 := if v ≥ u Gen.TOTAL_SHREDS then none else some v

end AgModel.MachInt
