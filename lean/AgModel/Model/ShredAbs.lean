import AgModel.Model.ShredGate
import AgModel.Model.Blockstore
import AgModel.Model.Repair
/-
The seam between the two models of `ValidatedShred` / `Shred`
(`src/shredder/validated_shred.rs`, `src/consensus/blockstore/slot_block_data.rs`, `src/repair.rs`):

* fine   (`Model/Shred.lean`, `Model/ShredGate.lean`): a shred carries slot, payload bytes, signature, Merkle path,
  data/coding type, index; `validate` = `ValidatedShred::try_new` with the commitment cache;
* coarse (`Model/Blockstore.lean`, `Model/Repair.lean`): a shred is (slice, last flag, interned root, index, size class,
  "type fits index"), no signature, no slot (one `SlotData` per slot).

`absShred` is the abstraction function; `FNode` is the fine per-slot node state: the coarse `SlotData` the blockstore
model works on *plus* what the abstraction forgets about the commitment cache (the full `SliceCommitment` with the
signature verified for it, `verified_sig`); `FNode.handle` is `Alpenglow::handle_disseminator_shred` of a node that is
not the slot's leader, on a RAW shred: `cached_commitment` → `try_new` → type check → `add_shred_from_dissemination`
(the coarse step `Blockstore.addDissem` on the abstraction), `Equivocation` → `flag_leader_misbehavior`.
`FNode.abs` forgets the fine part again. Import-free: the C12 driver executes it.
-/
namespace AgModel.Seam
open AgModel.Shred (Env VShred Cached Sig Bytes validate VErr)
open AgModel.Blockstore (SlotData Event Content AddRes)

/-- interning of slice roots (`Hash` ↦ the data id the blockstore model uses as leaf of the double-Merkle tree);
    the theorems need it injective (no SHA-256 collision) -/
abbrev RootId := AgModel.Merkle.H → Nat

/-- payload size class: what the layout check of `ValidatedShreds::try_new` looks at (`0` = empty or odd length) -/
def szClass (d : Bytes) : Nat := if d.length % 2 = 0 then d.length else 0

/-- `SliceCommitment` ↦ the slot-less commitment of `SlotBlockData` -/
def absCommit (rid : RootId) (c : Shred.Commitment) : Blockstore.Commitment := ⟨c.sliceIdx, c.isLast, rid c.root⟩

/-- **the abstraction function on shreds**: forgets slot, payload bytes (keeps the size class), signature and Merkle
    path (keeps the root they derive, interned), and the data/coding tag (keeps whether it fits the index) -/
def absShred (rid : RootId) (v : VShred) : Blockstore.Shred :=
  ⟨v.shred.header.sliceIdx, v.shred.header.isLast, rid v.root, v.shred.index, szClass v.shred.data, v.shred.typeOk⟩

/-- the fine per-slot state of a node that is not the slot's leader -/
structure FNode where
  slot : Nat
  /-- the blockstore's data for the slot, as the blockstore model sees it -/
  sd : SlotData
  /-- `commitment_cache` of the disseminated `BlockData` in full: slice index ↦ `SliceCommitment` with `verified_sig` -/
  fc : List (Nat × Cached) := []

def FNode.new (cap slot : Nat) : FNode := ⟨slot, SlotData.new cap slot, []⟩

/-- **the abstraction function on states** -/
def FNode.abs (n : FNode) : SlotData := n.sd

/-- `Blockstore::cached_commitment(slot, slice)` -/
def FNode.cachedEntry (n : FNode) (idx : Nat) : Option Cached := (n.fc.find? (·.1 == idx)).map (·.2)

/-- a raw shred arrives (`Alpenglow::handle_disseminator_shred`, `consensus.rs`): the shred is routed to its slot's
    data; `try_new` with the cached commitment; `Equivocation` ⇒ `flag_leader_misbehavior`; a bad signature is
    dropped; a validated shred whose type does not fit its index is dropped (D15 `fix:`); otherwise
    `add_shred_from_dissemination` (coarse step on the abstraction), whose `add_shred` fills the vacant cache entry
    with `shred.commitment()` - reached iff the slot is not flagged (the type was checked above).
    Returns the events sent to Votor. -/
def FNode.handle (env : Env) (cenv : Nat → Content) (rid : RootId) (pk : Nat) (n : FNode) (s : Shred.Shred) :
    FNode × List Event :=
  if s.header.slot ≠ n.slot then (n, [])
  else match validate env s (n.cachedEntry s.header.sliceIdx) pk with
    | .error .invalidSignature => (n, [])
    | .error .equivocation => ({ n with sd := (Blockstore.flag n.sd).1 }, (Blockstore.flag n.sd).2)
    | .ok v =>
      if !v.shred.typeOk then (n, [])
      else
        let r := Blockstore.addDissem cenv n.sd (absShred rid v)
        let fc := if n.sd.misbehaved then n.fc
          else match n.cachedEntry s.header.sliceIdx with
            | some _ => n.fc
            | none => (s.header.sliceIdx, v.cacheEntry) :: n.fc
        ({ n with sd := r.1, fc := fc }, r.2.2)

/-- the node on a sequence of raw shreds: final state and all events in order -/
def FNode.run (env : Env) (cenv : Nat → Content) (rid : RootId) (pk : Nat) : FNode → List Shred.Shred → FNode × List Event
  | n, [] => (n, [])
  | n, s :: rest =>
    let r := n.handle env cenv rid pk s
    let r' := FNode.run env cenv rid pk r.1 rest
    (r'.1, r.2 ++ r'.2)

/-- `add_shred_from_dissemination` called directly with an already validated shred (what the harness's `probe` does on
    the node's blockstore): the coarse step on the abstraction; `add_shred` fills the vacant cache entry with
    `shred.commitment()` iff the slot is not flagged and the type fits -/
def FNode.addValidated (cenv : Nat → Content) (rid : RootId) (n : FNode) (v : VShred) : FNode × AddRes × List Event :=
  let r := Blockstore.addDissem cenv n.sd (absShred rid v)
  let idx := v.shred.header.sliceIdx
  let fc := if n.sd.misbehaved || !v.shred.typeOk then n.fc
    else match n.cachedEntry idx with
      | some _ => n.fc
      | none => (idx, v.cacheEntry) :: n.fc
  ({ n with sd := r.1, fc := fc }, r.2.1, r.2.2)

/-! ### the coarse side -/

/-- **the abstraction of a raw shred**, stateless: the raw shreds of the slot that pass `try_new(_, None, leader)`,
    abstracted; everything else (other slot, bad signature, unconsumed index) is not a delivery at all -/
def absIn (env : Env) (rid : RootId) (pk slot : Nat) (s : Shred.Shred) : Option Blockstore.Shred :=
  if s.header.slot ≠ slot then none
  else match validate env s none pk with
    | .ok v => some (absShred rid v)
    | .error _ => none

/-- the one place where the node is *not* `add_shred_from_dissemination` on what validates: `try_new` reports a
    validly signed conflicting commitment before anybody looks at the data/coding type, whereas `add_shred` drops a
    shred of the wrong type before it compares commitments -/
def typedConflict (sd : SlotData) (cs : Blockstore.Shred) : Bool :=
  !cs.ty && (match sd.dis.cache cs.slice with
    | some c => decide (c ≠ cs.commitment)
    | none => false)

/-- coarse model of the node's receive path on one (abstract) validated shred -/
def addNode (cenv : Nat → Content) (sd : SlotData) (cs : Blockstore.Shred) : SlotData × List Event :=
  if typedConflict sd cs then Blockstore.flag sd
  else ((Blockstore.addDissem cenv sd cs).1, (Blockstore.addDissem cenv sd cs).2.2)

def runNode (cenv : Nat → Content) : SlotData → List Blockstore.Shred → SlotData × List Event
  | sd, [] => (sd, [])
  | sd, s :: rest =>
    let r := addNode cenv sd s
    let r' := runNode cenv r.1 rest
    (r'.1, r.2 ++ r'.2)

/-! ### repair: what the coarse responder's `sigOk` stands for -/

/-- the fine meaning of the attribute `sigOk` of a coarse shred response: the shred a node serves is one
    `ValidatedShred::try_new(_, None, leader_pk)` accepts, and the response carries its abstraction -/
def ServedOk (env : Env) (rid : RootId) (pk : Nat) (x : VShred) (cs : Blockstore.Shred) : Prop :=
  validate env x.shred none pk = .ok x ∧ cs = absShred rid x

end AgModel.Seam
