import AgModel.Gen.Consts
/-
Model of `src/execution/commitment.rs` (import-free, executable).

A lattice hash is `NUM_LANES` lanes of `u16`; the model uses a list of naturals `< 2^16`.
`hash_entry(key, value)` (SHA-256 in counter mode) is a *parameter* `h` of everything below: the
theorems hold for every function into lane vectors, the driver is given the real per-entry lane
vectors by the harness. `digest()` (SHA-256 of the little-endian lane bytes) is idealised as
injective in the lanes and not modelled.
-/
namespace AgModel.LtHash

/-- `NUM_LANES` -/
def numLanes : Nat := AgModel.Gen.LTHASH_NUM_LANES

/-- lane modulus: lanes are `u16`, arithmetic is `wrapping_add` / `wrapping_sub` -/
def M : Nat := 65536

abbrev Lanes := List Nat

/-- `LtHash::identity()` -/
def identity : Lanes := List.replicate numLanes 0

def wadd (x y : Nat) : Nat := (x + y) % M
def wsub (x y : Nat) : Nat := (x + M - y % M) % M

/-- `AddAssign<&Self>`: lane-wise `wrapping_add` over `zip` -/
def addL (a b : Lanes) : Lanes := List.zipWith wadd a b

/-- `SubAssign<&Self>`: lane-wise `wrapping_sub` over `zip` -/
def subL (a b : Lanes) : Lanes := List.zipWith wsub a b

/-- `observe(key, old, new)`: `remove_entry` the old entry, then `add_entry` the new one. -/
def observe (acc : Lanes) (hold hnew : Option Lanes) : Lanes :=
  let a1 := match hold with
    | some o => subL acc o
    | none => acc
  match hnew with
  | some n => addL a1 n
  | none => a1

/-- the commitment recomputed from contents: `for (k, v) in &state { recomputed.add_entry(k, v) }` -/
def commitOf {κ ν : Type} (h : κ → ν → Lanes) (l : List (κ × ν)) : Lanes :=
  l.foldl (fun acc kv => addL acc (h kv.1 kv.2)) identity

/-- a lane vector as the Rust type guarantees it -/
def LanesOK (a : Lanes) : Prop := a.length = numLanes ∧ ∀ x ∈ a, x < M

/-- checksum printed by the driver / harness for comparing lane vectors -/
def checksum (a : Lanes) : Nat :=
  (a.foldl (fun (st : Nat × Nat) x => ((st.1 * 31 + x + st.2) % 18446744073709551616, st.2 + 1)) (7, 1)).1

end AgModel.LtHash
