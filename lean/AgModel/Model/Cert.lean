import AgModel.Gen.Consts
/-
Model of vote / certificate *admission* (import-free, executable):
  src/consensus/validated_vote.rs   `ValidatedVote::try_new`
  src/consensus/validated_cert.rs   `ValidatedCert::try_new`
  src/consensus/cert.rs             `check_threshold`, `check_sig` of the five certificate types
  src/consensus/vote.rs             `VotePayload` (what is signed), `check_sig`
  src/consensus/epoch_info.rs       `is_quorum`, `is_strong_quorum`, `validator()`
  src/types/fraction.rs             `Fraction::is_met`
  src/crypto/aggsig.rs              `verify_bytes`, `is_signer`, `signers`, `read_bitvec`

Signatures are idealised symbolically (DESIGN.md §4, Dolev–Yao): a BLS signature *value* is the
formal sum (multiset) of its parts `sk_key · H(msg)`; an individual signature is a one-element
sum; aggregation is multiset union; verification against public keys `pk_1..pk_m` and one message
`msg` succeeds iff the value is exactly `Σ sk_i · H(msg)`, i.e. the multiset `{(key_i, msg)}`.
Keys are small ids; a key id that belongs to no validator models "bytes signed by an outsider".
Every Rust index operation appears as an explicit `panic` outcome.
-/
namespace AgModel.Cert

/-- `VotePayload` (vote.rs l.26): the (kind, slot, hash) triple whose serialisation is signed. -/
inductive Payload where
  | notar (slot hash : Nat)
  | notarFallback (slot hash : Nat)
  | skip (slot : Nat)
  | skipFallback (slot : Nat)
  | final (slot : Nat)
deriving DecidableEq, Repr, Inhabited

/-- one summand `sk_key · H(msg)` of a signature value -/
structure Part where
  key : Nat
  msg : Payload
deriving DecidableEq, Repr, Inhabited

/-- a signature value (individual or aggregate): formal sum of parts, order irrelevant -/
abbrev Sig := List Part

structure Validator where
  key : Nat      -- id of the voting key pair
  stake : Nat
deriving DecidableEq, Repr, Inhabited

/-- `EpochInfo`: validator `i` is `vals[i]` (`EpochInfo::new` asserts `vals[i].id == i`). -/
structure Epoch where
  vals : List Validator
deriving Repr

def Epoch.n (e : Epoch) : Nat := e.vals.length
/-- `total_stake` -/
def Epoch.total (e : Epoch) : Nat := (e.vals.map (·.stake)).sum
/-- `validators.iter().map(|v| v.voting_pubkey)` -/
def Epoch.pks (e : Epoch) : List Nat := e.vals.map (·.key)

inductive Outcome (ε : Type) where
  | ok
  | err (e : ε)
  | panic
deriving DecidableEq, Repr

/-! ### votes -/

structure Vote where
  payload : Payload     -- kind, slot, block hash
  sig : Sig
  signer : Nat
deriving DecidableEq, Repr

inductive VoteErr where
  | unknownSigner
  | invalidSignature
deriving DecidableEq, Repr

/-- `IndividualSignature::verify(msg, pk)` -/
def verifyInd (sig : Sig) (msg : Payload) (pk : Nat) : Bool := sig.isPerm [⟨pk, msg⟩]

/-- `ValidatedVote::try_new` -/
def validateVote (e : Epoch) (v : Vote) : Outcome VoteErr :=
  if v.signer ≥ e.n then .err .unknownSigner
  else match e.vals[v.signer]? with
    | none => .panic                           -- `&self.validators[id.as_usize()]`
    | some val => if verifyInd v.sig v.payload val.key then .ok else .err .invalidSignature

/-! ### aggregate signatures -/

/-- `AggregateSignature { sig, bitmask }` -/
structure Agg where
  sig : Sig
  bits : List Bool
deriving DecidableEq, Repr

/-- `is_signer`: out-of-range index is `false` -/
def Agg.isSigner (a : Agg) (i : Nat) : Bool := a.bits.getD i false

/-- `iter_ones` from offset `i` -/
def ones (i : Nat) : List Bool → List Nat
  | [] => []
  | b :: bs => if b then i :: ones (i + 1) bs else ones (i + 1) bs

/-- `signers()` -/
def Agg.signers (a : Agg) : List Nat := ones 0 a.bits

/-- `signers().map(|v| &pks[v])`; `none` = index panic -/
def lookupKeys (pks : List Nat) : List Nat → Option (List Nat)
  | [] => some []
  | i :: is =>
    match pks[i]?, lookupKeys pks is with
    | some k, some ks => some (k :: ks)
    | _, _ => none

/-- `fast_aggregate_verify(true, msg, DST, pks)`: fails for an empty key list. -/
def fastAggregateVerify (sig : Sig) (msg : Payload) (ks : List Nat) : Bool :=
  !ks.isEmpty && sig.isPerm (ks.map (fun k => ⟨k, msg⟩))

/-- `AggregateSignature::verify`; `none` = panic -/
def Agg.verify (a : Agg) (msg : Payload) (pks : List Nat) : Option Bool :=
  if a.bits.length ≠ pks.length then some false
  else match lookupKeys pks a.signers with
    | none => none
    | some ks => some (fastAggregateVerify a.sig msg ks)

/-- bits of one `usize` word, `Lsb0` order -/
def bitsOfWord (w : Nat) : List Bool := (List.range 64).map (fun j => (w / 2 ^ j) % 2 = 1)

def bitsOfWords (ws : List Nat) : List Bool := ws.flatMap bitsOfWord

/-- `read_bitvec(reader, max_bits)` after the two integers were read: `none` = decode error. -/
def readBitvec (maxBits numBits : Nat) (words : List Nat) : Option (List Bool) :=
  if words.length > (maxBits + 63) / 64 then none          -- "bitmask too long"
  else if numBits > 64 * words.length then none            -- "want to use too many bits"
  else some ((bitsOfWords words).take numBits)             -- `truncate(num_bits)`

/-! ### certificates -/

inductive Cert where
  | notar (slot hash : Nat) (agg : Agg) (stake : Nat)
  | notarFallback (slot hash : Nat) (aggNotar aggNotarFallback : Option Agg) (stake : Nat)
  | skip (slot : Nat) (aggSkip aggSkipFallback : Option Agg) (stake : Nat)
  | fastFinal (slot hash : Nat) (agg : Agg) (stake : Nat)
  | final (slot : Nat) (agg : Agg) (stake : Nat)
deriving DecidableEq, Repr

def optHalf (a : Option Agg) (p : Payload) : List (Agg × Payload) :=
  match a with
  | some a => [(a, p)]
  | none => []

/-- the aggregate signatures present in a certificate, each with the payload `check_sig` verifies
    it against -/
def Cert.halves : Cert → List (Agg × Payload)
  | .notar s h a _ => [(a, .notar s h)]
  | .notarFallback s h a1 a2 _ => optHalf a1 (.notar s h) ++ optHalf a2 (.notarFallback s h)
  | .skip s a1 a2 _ => optHalf a1 (.skip s) ++ optHalf a2 (.skipFallback s)
  | .fastFinal s h a _ => [(a, .notar s h)]
  | .final s a _ => [(a, .final s)]

/-- (numerator, denominator) of the certificate type's stake threshold -/
def Cert.threshold : Cert → Nat × Nat
  | .fastFinal .. => (AgModel.Gen.STRONG_QUORUM_THRESHOLD_NUM, AgModel.Gen.STRONG_QUORUM_THRESHOLD_DEN)
  | _ => (AgModel.Gen.QUORUM_THRESHOLD_NUM, AgModel.Gen.QUORUM_THRESHOLD_DEN)

/-- the stake figure the certificate declares (`Cert::stake`) -/
def Cert.declared : Cert → Nat
  | .notar _ _ _ st | .notarFallback _ _ _ _ st | .skip _ _ _ st | .fastFinal _ _ _ st | .final _ _ st => st

def Cert.withDeclared : Cert → Nat → Cert
  | .notar s h a _, st => .notar s h a st
  | .notarFallback s h a1 a2 _, st => .notarFallback s h a1 a2 st
  | .skip s a1 a2 _, st => .skip s a1 a2 st
  | .fastFinal s h a _, st => .fastFinal s h a st
  | .final s a _, st => .final s a st

/-- the filter of `check_threshold`: validator `i` is marked in some present half -/
def Cert.marks (c : Cert) (i : Nat) : Bool := c.halves.any (fun h => h.1.isSigner i)

/-- `validators.iter().filter(|v| marked(v.id)).map(|v| v.stake).sum()` from validator index `i` -/
def stakeWhere (f : Nat → Bool) (i : Nat) : List Validator → Nat
  | [] => 0
  | v :: vs => (if f i then v.stake else 0) + stakeWhere f (i + 1) vs

/-- `Fraction::is_met` (u128 arithmetic, exact for u64 inputs); `none` = the
    `debug_assert!(total != 0)` fires (debug profile) -/
def isMet (num den value total : Nat) : Option Bool :=
  if total = 0 then none else some (decide (value * den ≥ total * num))

/-- `Cert::check_threshold`; `none` = panic -/
def checkThreshold (e : Epoch) (c : Cert) : Option Bool :=
  isMet c.threshold.1 c.threshold.2 (stakeWhere c.marks 0 e.vals) e.total

def allOpt : List (Option Bool) → Option Bool
  | [] => some true
  | none :: _ => none
  | some b :: rest =>
    match allOpt rest with
    | none => none
    | some r => some (b && r)

/-- `Cert::check_sig`; `none` = panic. Both halves are always evaluated. -/
def checkSig (e : Epoch) (c : Cert) : Option Bool :=
  allOpt (c.halves.map (fun h => h.1.verify h.2 e.pks))

inductive CertErr where
  | insufficientStake
  | invalidSignature
deriving DecidableEq, Repr

/-- `ValidatedCert::try_new` -/
def validateCert (e : Epoch) (c : Cert) : Outcome CertErr :=
  match checkThreshold e c with
  | none => .panic
  | some false => .err .insufficientStake
  | some true =>
    match checkSig e c with
    | none => .panic
    | some false => .err .invalidSignature
    | some true => .ok

end AgModel.Cert
