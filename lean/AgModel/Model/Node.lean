import AgModel.Model.Pool
import AgModel.Model.Votor
/-!
Composition of the pool and the voting component of one node, as `consensus.rs` wires them:

* network votes / certificates (already validated) and `add_block` go to the pool; the `PoolEvent`s the pool
  sends are queued (the mpsc channel to Votor) in emission order;
* Votor handles, in any interleaving (`tokio::select!`): the next queued pool event (`pump`), a blockstore
  event (`Block`, `FirstShred`, `InvalidBlock`), or a timeout;
* everything Votor broadcasts (its own votes, and every certificate the pool created or admitted) is an output.

The composition is executable (cluster correspondence, `Driver/C01.lean`) and is what the voting rules R1–R5 of
`Spec.Rules` are statements about.
-/
namespace AgModel.Node
open AgModel

structure Node where
  pool : Pool.Pool
  votor : Votor.V := Votor.init
  /-- pool events not yet handled by Votor (FIFO) -/
  queue : List Pool.Event := []
  /-- the pool panicked / the votor panicked -/
  dead : Bool := false

def certKind : Pool.CertKind → Votor.CertKind
  | .notar => .notar | .nf => .notarFallback | .skip => .skip | .ff => .fastFinal | .final => .final

/-- what Votor sees of a pool event (`none`: not sent to Votor: repair requests go to the repair task) -/
def toVotor : Pool.Event → Option Votor.Event
  | .cert c => some (.cert (certKind c.kind) c.slot c.hash)
  | .s2n s h => some (.safeToNotar s h)
  | .s2s s => some (.safeToSkip s)
  | .parentReady s ps ph => some (.parentReady s ps ph)
  | .standstill s _ _ => some (.standstill s [])
  | .repair _ _ => none
  | .panic => none

/-- what a Votor step added to its log as outputs, oldest first -/
def newOuts (before after : Votor.V) : List Votor.Out :=
  ((after.log.take (after.log.length - before.log.length)).reverse).filterMap (fun i => match i with
    | .out o => some o
    | .ev _ => none)

def enqueue (n : Node) (evs : List Pool.Event) : Node :=
  if evs.contains .panic then { n with dead := true }
  else { n with queue := n.queue ++ evs.filter (fun e => (toVotor e).isSome) }

/-- a validated vote from the network (or the node's own vote looping back) -/
def recvVote (n : Node) (v : Pool.Vote) : Node × Pool.Verdict × List Pool.Event :=
  if n.dead then (n, .panic, []) else
  let (p, verdict, evs) := n.pool.addVote v
  (enqueue { n with pool := p } evs, verdict, evs)

/-- a validated certificate from the network -/
def recvCert (n : Node) (c : Pool.Cert) : Node × Pool.Verdict × List Pool.Event :=
  if n.dead then (n, .panic, []) else
  let (p, verdict, evs) := n.pool.addCert c
  (enqueue { n with pool := p } evs, verdict, evs)

/-- `pool.add_block` (called by the message loop after the blockstore reconstructed a block) -/
def poolBlock (n : Node) (b par : Nat × Nat) : Node × List Pool.Event :=
  if n.dead then (n, []) else
  let (p, evs) := n.pool.addBlock b par
  (enqueue { n with pool := p } evs, evs)

/-- one event handled by Votor; returns what it broadcast -/
def votorStep (n : Node) (e : Votor.Event) : Node × List Votor.Out :=
  if n.dead then (n, []) else
  let v' := Votor.step n.votor e
  ({ n with votor := v', dead := v'.panicked }, newOuts n.votor v')

/-- Votor takes the next pool event from the channel -/
def pump (n : Node) : Node × List Votor.Out :=
  match n.queue with
  | [] => (n, [])
  | e :: rest =>
    match toVotor e with
    | some ve => votorStep { n with queue := rest } ve
    | none => ({ n with queue := rest }, [])

end AgModel.Node
