import AgModel.Gen.Consts
import AgModel.Model.Route
/-
Model of the message-loop glue of the `Alpenglow` node, `src/consensus.rs` (import-free, executable):
for every input kind the loop handles, the list of side effects **in the order the code performs them**.

* `handleShred`  = `Alpenglow::handle_disseminator_shred` (consensus.rs:386-441)
* `handleA2A`    = `Alpenglow::handle_all2all_message`    (consensus.rs:345-382)

The sub-components are parameters of one call: the verdict of `ValidatedShred::try_new(shred, cached, leader_pk)`
(models: `Shred.validate`, `Seam.FNode.handle`), `RegularShredder::has_expected_type`, what `Disseminator::forward`
does for this node (`Route.rotorForward` / `Route.turbineForward`; instantiated below), whether the own node is
`EpochInfo::leader(slot)`, and what `add_shred_from_dissemination` answers (`Blockstore.addDissem`).
The glue itself - which of them is called, in which order, under which conditions - is what is modelled.
Not modelled: `async`, the `RwLock`s (each lock is taken for one call and released), channels, tracing.
-/
namespace AgModel.NodeGlue
open AgModel.Route (Out)

/-- `ValidatedShred::try_new(shred, cached.as_ref(), &leader_pk)` -/
inductive Verdict where
  | ok
  | equivocation
  | invalidSignature
deriving DecidableEq, Repr

/-- `Result<Option<BlockInfo>, AddShredError>` of `add_shred_from_dissemination`, as far as the glue looks at it -/
inductive BsRes where
  /-- `Err(_)`: duplicate, slot flagged, … - nothing happens -/
  | err
  /-- `Ok(None)`: stored, block not (newly) complete -/
  | stored
  /-- `Ok(Some(block_info))`: this shred completed the disseminated block -/
  | block
deriving DecidableEq, Repr

/-- the side effects of the shred handler, one constructor per call site -/
inductive Eff where
  /-- consensus.rs:392-396 `blockstore.read().cached_commitment(slot, slice)` (read only) -/
  | readCache
  /-- consensus.rs:397 `ValidatedShred::try_new` returned this verdict -/
  | validate (v : Verdict)
  /-- consensus.rs:402-406 `blockstore.write().flag_leader_misbehavior(slot)` -/
  | flag
  /-- consensus.rs:413 `RegularShredder::has_expected_type` returned this -/
  | typeCheck (ok : Bool)
  /-- consensus.rs:418 `self.disseminator.forward(shred)`: the destinations it sent to (or panic / io error) -/
  | forward (o : Out)
  /-- consensus.rs:426-431 `blockstore.write().add_shred_from_dissemination(validated)` with its answer -/
  | ingest (r : BsRes)
  /-- consensus.rs:434-438 `pool.write().add_block((slot, hash), parent)` -/
  | addBlock
deriving DecidableEq, Repr

/-- everything one call of the handler depends on -/
structure ShredIn where
  verdict : Verdict
  typeOk : Bool
  /-- what `Disseminator::forward` does when called by this node for this shred -/
  fwd : Out
  /-- `epoch_info.leader(slot).id == epoch_info.own_id()` -/
  ownIsLeader : Bool
  /-- answer of the blockstore, were the shred handed to it -/
  bs : BsRes
deriving DecidableEq, Repr

/-- **`Alpenglow::handle_disseminator_shred`**: the effects in program order. -/
def handleShred (i : ShredIn) : List Eff :=
  .readCache :: .validate i.verdict ::
  match i.verdict with
  | .equivocation => [.flag]                      -- report, return Ok(())
  | .invalidSignature => []                       -- return Ok(())
  | .ok =>
    .typeCheck i.typeOk ::
    if !i.typeOk then []                          -- return Ok(())
    else
      .forward i.fwd ::
      match i.fwd with
      | .panic => []                              -- `?` / panic: the handler ends here
      | .to _ =>
        if i.ownIsLeader then []                  -- "if we are the leader, we already have the shred"
        else
          .ingest i.bs ::
          match i.bs with
          | .block => [.addBlock]
          | _ => []

/-- the *defective* order this check is there to catch: leader test before `forward`
    (the Rotor leader then never broadcasts the shreds it is itself the relay of) -/
def handleShredLeaderFirst (i : ShredIn) : List Eff :=
  .readCache :: .validate i.verdict ::
  match i.verdict with
  | .equivocation => [.flag]
  | .invalidSignature => []
  | .ok =>
    .typeCheck i.typeOk ::
    if !i.typeOk then []
    else if i.ownIsLeader then []
    else
      .forward i.fwd ::
      match i.fwd with
      | .panic => []
      | .to _ =>
        .ingest i.bs ::
        match i.bs with
        | .block => [.addBlock]
        | _ => []

/-! ### projections of an effect list -/

def Eff.isForward : Eff → Bool
  | .forward _ => true
  | _ => false

def Eff.isIngest : Eff → Bool
  | .ingest _ => true
  | _ => false

/-- an effect that leaves the handler: network send, blockstore write, pool write -/
def Eff.isAct : Eff → Bool
  | .forward _ | .ingest _ | .addBlock => true
  | _ => false

/-- number of `forward` calls -/
def forwards (es : List Eff) : Nat := es.countP Eff.isForward

/-- number of blockstore ingests -/
def ingests (es : List Eff) : Nat := es.countP Eff.isIngest

/-- what the node put on the dissemination network: the outcome of its `forward` call (`to []` if none) -/
def fwdOut : List Eff → Out
  | [] => .to []
  | .forward o :: _ => o
  | _ :: es => fwdOut es

/-! ### all-to-all messages: `handle_all2all_message` (consensus.rs:345-382) -/

inductive A2AKind where
  | vote
  | cert
deriving DecidableEq, Repr

/-- `AddVoteError` / `AddCertError` as far as the glue distinguishes them -/
inductive PoolRes where
  | ok
  | slashable
  | otherErr
deriving DecidableEq, Repr

inductive A2AEff where
  /-- `ValidatedVote::try_new` / `ValidatedCert::try_new` (signature check, before the pool lock) -/
  | validate (k : A2AKind) (ok : Bool)
  | addVote
  | addCert
  /-- `warn!("slashable offence detected")` -/
  | warnSlashable
deriving DecidableEq, Repr

/-- **`Alpenglow::handle_all2all_message`**. Everything after the pool call (votor events, certificate broadcast,
    repair requests) happens *inside* the pool (`Model/Node.lean`: Pool ∘ Votor), not in this glue. -/
def handleA2A (k : A2AKind) (valid : Bool) (res : PoolRes) : List A2AEff :=
  .validate k valid ::
  if !valid then []
  else match k with
    | .vote => .addVote :: (if res = .slashable then [.warnSlashable] else [])
    | .cert => [.addCert]

/-! ### what follows the pool call inside the node: `PoolImpl::add_valid_cert` → `PoolEvent::CertCreated` →
`Votor::handle_pool_event` → `Votor::handle_cert_created` → `All2All::broadcast` (pool.rs:197-257, votor.rs:145-245) -/

inductive CertKind where
  | notar
  | notarFallback
  | skip
  | fastFinal
  | final
deriving DecidableEq, Repr

/-- a certificate as far as the node's reaction depends on it -/
structure CertRef where
  kind : CertKind
  slot : Nat
deriving DecidableEq, Repr

/-- effects of the whole node (glue, pool, votor task) on one all-to-all message, in program order -/
inductive NodeEff where
  /-- an effect of `handle_all2all_message` itself -/
  | glue (e : A2AEff)
  /-- pool.rs `add_valid_cert`, last statement: `send_votor_event(PoolEvent::CertCreated(cert))` - the pool stored `c` newly -/
  | certCreated (c : CertRef)
  /-- votor.rs `handle_cert_created`, last statement: `self.broadcast(ConsensusMessage::from(cert))` -/
  | bcast (c : CertRef)
  /-- votor.rs `should_ignore_pool_event`: `CertCreated` of a slot below `first_unpruned_slot()` is dropped -/
  | ignoreOld (c : CertRef)
deriving DecidableEq, Repr

/-- votor.rs:145 `first_unpruned_slot` = `highest_final_cert_slot.first_slot_in_window()` -/
def votorFirstUnpruned (hf : Nat) : Nat := hf / Gen.SLOTS_PER_WINDOW * Gen.SLOTS_PER_WINDOW

def CertKind.isFinal : CertKind → Bool
  | .final | .fastFinal => true
  | _ => false

/-- the Votor task working off the `CertCreated` events in channel order; `hf` = `highest_final_cert_slot`.
    (Its own votes - `try_final` after a notarization certificate, skip votes on timeouts - are not part of this model.) -/
def votorCerts (hf : Nat) : List CertRef → List NodeEff × Nat
  | [] => ([], hf)
  | c :: cs =>
    if c.slot < votorFirstUnpruned hf then
      ((NodeEff.ignoreOld c) :: (votorCerts hf cs).1, (votorCerts hf cs).2)
    else
      let hf1 := if c.kind.isFinal then max hf c.slot else hf
      ((NodeEff.bcast c) :: (votorCerts hf1 cs).1, (votorCerts hf1 cs).2)

/-- **the node on one all-to-all message**: the glue, then - only if the message validated and the pool answered
    `Ok(())` - a `CertCreated` event per certificate the pool newly stored during this call (`created`: the message
    itself if it is a certificate, the certificates a vote completed), then the Votor task re-broadcasting them.
    `add_cert` / `add_vote` return `Err(_)` before `add_valid_cert` can run, so `created` is not looked at then.
    Result: effects, new `highest_final_cert_slot`. -/
def a2aNode (k : A2AKind) (valid : Bool) (res : PoolRes) (created : List CertRef) (hf : Nat) : List NodeEff × Nat :=
  let g := (handleA2A k valid res).map NodeEff.glue
  if valid && res = .ok then
    (g ++ created.map NodeEff.certCreated ++ (votorCerts hf created).1, (votorCerts hf created).2)
  else (g, hf)

def CertKind.name : CertKind → String
  | .notar => "notar"
  | .notarFallback => "nf"
  | .skip => "skip"
  | .fastFinal => "ff"
  | .final => "final"

/-- observable on the real node: pool calls (hook `verif_add_msg_calls`) and certificate broadcasts (recording `All2All`) -/
def renderNodeEff : NodeEff → Option String
  | .glue .addVote => some "add_vote"
  | .glue .addCert => some "add_cert"
  | .bcast c => some s!"bcast {c.kind.name}@{c.slot}"
  | _ => none

def renderNode (es : List NodeEff) : String :=
  match es.filterMap renderNodeEff with
  | [] => "none"
  | x :: xs => xs.foldl (fun s t => s ++ " | " ++ t) x

/-! ### every node runs the glue: the per-node behaviour of `Route.run` -/

/-- node `v` of `n` receives shred `s` of a slot led by `ldr` under Rotor (committee of the slice given): the
    input of its handler. `ok`/`ty`: does the shred validate / have the expected type at `v`; `bs`: the answer of
    `v`'s blockstore. -/
def rotorIn (n ldr : Nat) (committee : List Nat) (s : Nat) (ok : Nat → Verdict) (ty : Nat → Bool) (bs : Nat → BsRes)
    (v : Nat) : ShredIn :=
  ⟨ok v, ty v, Route.rotorForward n ldr v committee s, decide (v = ldr), bs v⟩

def turbineIn (perm : List Nat) (f ldr : Nat) (ok : Nat → Verdict) (ty : Nat → Bool) (bs : Nat → BsRes)
    (v : Nat) : ShredIn :=
  ⟨ok v, ty v, Route.turbineForward perm f v, decide (v = ldr), bs v⟩

/-- fault-free Rotor dissemination of one shred in which every node runs `handle` on what it receives -/
def rotorGlueRun (handle : ShredIn → List Eff) (n ldr : Nat) (committee : List Nat) (s : Nat)
    (ok : Nat → Verdict) (ty : Nat → Bool) (bs : Nat → BsRes) : List Nat :=
  Route.run (fun v => fwdOut (handle (rotorIn n ldr committee s ok ty bs v))) (n + 1)
    (Route.outDests (Route.rotorSend n committee s))

def turbineGlueRun (handle : ShredIn → List Eff) (perm : List Nat) (f ldr : Nat)
    (ok : Nat → Verdict) (ty : Nat → Bool) (bs : Nat → BsRes) : List Nat :=
  Route.run (fun v => fwdOut (handle (turbineIn perm f ldr ok ty bs v))) (perm.length + 1)
    (Route.outDests (Route.turbineSend perm f ldr))

/-! ### canonical rendering of the observable effects (shared with `harness/src/bin/ng.rs`) -/

def renderOut : Out → String
  | .to ds => ds.foldl (fun s d => s ++ " " ++ toString d) "fwd"
  | .panic => "fwd-panic"

/-- observable: `flag` (only the first flag of a slot changes anything), every `forward` with its destinations,
    `store` (the blockstore holds one shred more), `block` (`pool.add_block`); reads and pure checks are not. -/
def renderEff (flaggedBefore : Bool) : Eff → Option String
  | .flag => if flaggedBefore then none else some "flag"
  | .forward o => some (renderOut o)
  | .ingest .err => none
  | .ingest _ => some "store"
  | .addBlock => some "block"
  | _ => none

def render (flaggedBefore : Bool) (es : List Eff) : String :=
  match es.filterMap (renderEff flaggedBefore) with
  | [] => "none"
  | x :: xs => xs.foldl (fun s t => s ++ " | " ++ t) x

end AgModel.NodeGlue
