import AgModel.Gen.Consts
/-
Model of the leader side, `src/consensus/block_producer.rs` (import-free, executable).

What is modelled (line numbers of the repository snapshot this was written against):
* `produce_slice_payload` (435-492): the byte budget `buffer_space = MAX_DATA_PER_SLICE - |Some(parent)| - 8`
  (the encoded parent is ALWAYS reserved, fix D28), the 8 byte transaction-count prefix, the receive loop
  (oversize transactions dropped before they are counted, count += 1, serialise = 8 byte length + bytes,
  `break` as soon as another maximum-size transaction would not fit)                       -> `fill`
* `apply_parent_ready` (405-426): compares the HASH of the ready parent with the hash of the optimistic
  parent, overwrites `payload.parent` only when they differ                                  -> `sliceParent` / `newParent`
* the slice loops of `produce_block_parent_ready` (270-317) and `produce_block_parent_not_ready` (176-264):
  parent only on slice 0, `is_last = slice_index.is_max() || new_duration_left.is_zero()`, the three ways a
  slice of an optimistic block is finished (receiver terminated / slice first / ParentReady first), the
  final `await` of the ParentReady when the last slice is reached without it                  -> `step`, `run`
* `shred_and_disseminate` (324-399): `Slice::from_parts(header, payload)` goes to the shredder (which refuses
  a payload that encodes to more than MAX_DATA_PER_SLICE bytes: `expect` = panic), the 64 shreds go to the
  disseminator in index order, then `(payload, shreds)` to `Blockstore::add_own_slice`, then - when the
  block completed - `Pool::add_block`                                                          -> `sliceEffects`
* `wait_for_first_slot` (512-567) as a pure function of what became true first                -> `waitForFirstSlot`

Time, channels and tokio are inputs: a slice's input `SliceIn` says which transactions the socket handed out
before the slice's deadline (`arrived`; what a full slice leaves over stays queued for the next slice),
whether the slice's `sleep` fired (`deadline`), whether the clock arithmetic left zero time where the code
reads the clock (`zeroLeft`), and the ParentReady that the `select!` of this slice received (`pr`).
-/
namespace AgModel.BlockProducer

def MAX_DATA_PER_SLICE : Nat := AgModel.Gen.MAX_DATA_PER_SLICE
def MAX_TRANSACTION_SIZE : Nat := AgModel.Gen.MAX_TRANSACTION_SIZE
def MAX_SLICES : Nat := AgModel.Gen.MAX_SLICES_PER_BLOCK
def TOTAL_SHREDS : Nat := AgModel.Gen.TOTAL_SHREDS
/-- wincode size of `Some((Slot, BlockHash))`: 1 tag + 8 + 32 -/
def PARENT_SOME : Nat := 41
/-- wincode size of `None::<BlockId>` -/
def PARENT_NONE : Nat := 1
/-- `u64` length prefixes (of `SlicePayload::data`, of the transaction vector, of every transaction) -/
def LEN : Nat := 8

/-- a transaction: its position in the stream the socket hands out, and its byte length -/
structure Tx where
  id : Nat
  len : Nat
deriving DecidableEq, Repr

/-- `buffer_space` of `produce_slice_payload` (after fix D28: independent of the parent passed in) -/
def bufferSpace : Nat := MAX_DATA_PER_SLICE - PARENT_SOME - LEN

/-- `buffer.len()`: the count prefix and the serialised transactions -/
def dataLen (txs : List Tx) : Nat := LEN + (txs.map (fun t => LEN + t.len)).sum

structure FillRes where
  /-- `tx_count`, written over the first 8 bytes of the buffer at the end -/
  count : Nat
  /-- the transactions serialised into the buffer, in order -/
  txs : List Tx
  /-- not received by this slice: still in the socket -/
  rest : List Tx
  /-- the loop ended by `break duration_left - elapsed` (no room for another maximum-size transaction) -/
  full : Bool
deriving DecidableEq, Repr

/-- the `loop` of `produce_slice_payload` over the transactions that arrive before the deadline -/
def fill : Nat → List Tx → List Tx → FillRes
  | c, acc, [] => ⟨c, acc, [], false⟩
  | c, acc, t :: rest =>
    if MAX_TRANSACTION_SIZE < t.len then fill c acc rest
    else if bufferSpace - dataLen (acc ++ [t]) < MAX_TRANSACTION_SIZE + LEN then ⟨c + 1, acc ++ [t], rest, true⟩
    else fill (c + 1) (acc ++ [t]) rest

/-- `SlicePayload` -/
structure Payload where
  parent : Option (Nat × Nat)
  /-- the u64 at `data[0..8]` -/
  count : Nat
  txs : List Tx
deriving DecidableEq, Repr

/-- `data.len()` -/
def Payload.dataLen (p : Payload) : Nat := AgModel.BlockProducer.dataLen p.txs
/-- wincode size of the payload = what `RegularShredder::shred` compares with `MAX_DATA_PER_SLICE` -/
def Payload.encLen (p : Payload) : Nat := (if p.parent.isSome then PARENT_SOME else PARENT_NONE) + LEN + p.dataLen

/-- `SliceHeader` + `SlicePayload` = the `Slice` handed to the shredder -/
structure SliceOut where
  slot : Nat
  index : Nat
  isLast : Bool
  payload : Payload
deriving DecidableEq, Repr

inductive Mode where
  /-- `produce_block_parent_ready` -/
  | ready
  /-- `produce_block_parent_not_ready` -/
  | notReady
deriving DecidableEq, Repr

structure Cfg where
  mode : Mode
  slot : Nat
  /-- `parent_block_id` the function was called with -/
  parent : Nat × Nat
  /-- `delta_block == delta_first_slice` (then a first slice that times out uses up the block time) -/
  eqDeltas : Bool
deriving DecidableEq, Repr

structure SliceIn where
  arrived : List Tx
  deadline : Bool
  zeroLeft : Bool
  pr : Option (Nat × Nat)
deriving DecidableEq, Repr

inductive Status where
  | running
  /-- the function returned `Ok((slot, hash))` -/
  | done
  /-- still awaiting (a transaction, a deadline, the ParentReady) with the inputs given -/
  | blocked
  /-- `expect("shredding of valid slice should never fail")` -/
  | panicked
deriving DecidableEq, Repr

structure PState where
  /-- next `slice_index` -/
  k : Nat
  /-- `parent_ready_receiver.is_terminated()` (`true` throughout `produce_block_parent_ready`) -/
  seen : Bool
  queue : List Tx
  /-- the parent the block has, as far as announced in the slices produced so far -/
  parent : Nat × Nat
  status : Status
deriving DecidableEq, Repr

def init (c : Cfg) : PState := ⟨0, c.mode == .ready, [], c.parent, .running⟩

/-- the ParentReady this slice's `select!` (or the final `await`) receives -/
def prApplies (s : PState) (si : SliceIn) : Option (Nat × Nat) := if s.seen then none else si.pr

/-- the `parent` argument of `produce_slice_payload`: only the first slice carries one -/
def baseParent (c : Cfg) (s : PState) : Option (Nat × Nat) := if s.k = 0 then some c.parent else none

/-- `payload.parent` after `apply_parent_ready` (if it ran) -/
def sliceParent (c : Cfg) (s : PState) (si : SliceIn) : Option (Nat × Nat) :=
  match prApplies s si with
  | some np => if np.2 = c.parent.2 then baseParent c s else some np
  | none => baseParent c s

def newParent (c : Cfg) (s : PState) (si : SliceIn) : Nat × Nat :=
  match prApplies s si with
  | some np => if np.2 = c.parent.2 then s.parent else np
  | none => s.parent

/-- `new_duration_left.is_zero()` -/
def zeroAfter (c : Cfg) (s : PState) (si : SliceIn) (full : Bool) : Bool :=
  if s.seen then
    (if full then si.zeroLeft else if c.mode == .ready && s.k == 0 then c.eqDeltas else true)
  else match si.pr with
    | none => false          -- `(payload, Duration::MAX)`
    | some _ => si.zeroLeft  -- `delta_block.saturating_sub(start.elapsed())`

/-- one iteration of `for slice_index in SliceIndex::all()` including `shred_and_disseminate` -/
def step (c : Cfg) (s : PState) (si : SliceIn) : PState × List SliceOut :=
  if s.status ≠ .running then (s, [])
  else
    let f := fill 0 [] (s.queue ++ si.arrived)
    if !f.full && !si.deadline then ({ s with status := .blocked }, [])
    else
      let seen' := s.seen || si.pr.isSome
      let isLast := decide (s.k + 1 = MAX_SLICES) || zeroAfter c s si f.full
      if isLast && !seen' then ({ s with status := .blocked }, [])
      else
        let payload : Payload := ⟨sliceParent c s si, f.count, f.txs⟩
        if MAX_DATA_PER_SLICE < payload.encLen then ({ s with status := .panicked }, [])
        else
          ({ k := s.k + 1, seen := seen', queue := f.rest, parent := newParent c s si,
             status := if isLast then .done else .running },
           [⟨c.slot, s.k, isLast, payload⟩])

def run (c : Cfg) : PState → List SliceIn → PState × List SliceOut
  | s, [] => (s, [])
  | s, si :: rest =>
    let r := step c s si
    let r' := run c r.1 rest
    (r'.1, r.2 ++ r'.2)

/-- `produce_block_parent_ready` / `produce_block_parent_not_ready` on the given inputs -/
def produce (c : Cfg) (ins : List SliceIn) : PState × List SliceOut := run c (init c) ins

/-! ### side effects of `shred_and_disseminate`, in the order of the code -/

inductive Eff where
  /-- `shredder.shred(&Slice::from_parts(header, payload), sk)` -/
  | shred (s : SliceOut)
  /-- `disseminator.send(shred j of slice i)` (a failure is logged, never propagated) -/
  | send (index j : Nat)
  /-- `blockstore.add_own_slice(payload, shreds)` -/
  | addOwn (s : SliceOut)
  /-- `pool.add_block((slot, hash), parent)` after the block completed -/
  | poolAddBlock (slot : Nat) (parent : Nat × Nat)
deriving DecidableEq, Repr

def sliceEffects (o : SliceOut) : List Eff :=
  [.shred o] ++ (List.range TOTAL_SHREDS).map (Eff.send o.index) ++ [.addOwn o]

def effects (c : Cfg) (ins : List SliceIn) : List Eff :=
  let r := produce c ins
  r.2.flatMap sliceEffects ++ (if r.1.status = .done then [.poolAddBlock c.slot r.1.parent] else [])

/-! ### `wait_for_first_slot` -/

inductive SlotReady where
  | skip
  | ready (parent : Nat × Nat)
  | parentReadyNotSeen (parent : Nat × Nat)
deriving DecidableEq, Repr

/-- what `wait_for_first_slot` sees, in the order it looks -/
structure FirstSlotIn where
  genesisWindow : Bool
  /-- `pool.wait_for_parent_ready` answered `Either::Left(parent)` -/
  already : Option (Nat × Nat)
  /-- the `select!`: the ParentReady channel fired first -/
  prFirst : Option (Nat × Nat)
  /-- else the polling task: hash of the block of the previous slot in the blockstore -/
  prevBlock : Option Nat
  /-- else: `finalized_slot() >= first_slot_in_window` -/
  finalizedLater : Bool
deriving DecidableEq, Repr

/-- `none`: keeps waiting -/
def waitForFirstSlot (firstSlot : Nat) (i : FirstSlotIn) : Option SlotReady :=
  if i.genesisWindow then some (.ready (0, 0))
  else match i.already with
    | some p => some (.ready p)
    | none =>
      match i.prFirst with
      | some p => some (.ready p)
      | none =>
        match i.prevBlock with
        | some h => some (.parentReadyNotSeen (firstSlot - 1, h))
        | none => if i.finalizedLater then some .skip else none

/-- which producer the window loop calls for the first slot of a window -/
def cfgOf (slot : Nat) (eq : Bool) : SlotReady → Option Cfg
  | .skip => none
  | .ready p => some ⟨.ready, slot, p, eq⟩
  | .parentReadyNotSeen p => some ⟨.notReady, slot, p, eq⟩

end AgModel.BlockProducer
