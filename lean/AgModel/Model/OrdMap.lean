import AgModel.Model.TrieKey
/-
The "ordinary ordered map" C20 compares the account state with: a strictly sorted association
list (`BTreeMap<Address, AccountData>` listed in key order), parameterised by the strict order `lt`.
`lt := lexLt` is the order of `[u8; 32]`.
-/
namespace AgModel.OrdMap
open AgModel.Trie

abbrev Map := List (Key × Nat)

def find : Map → Key → Option Nat
  | [], _ => none
  | (k, v) :: rest, key => if k = key then some v else find rest key

/-- insert / overwrite keeping the list sorted -/
def put (lt : Key → Key → Bool) : Map → Key → Nat → Map
  | [], k, v => [(k, v)]
  | (k', v') :: rest, k, v =>
    if k' = k then (k, v) :: rest
    else if lt k k' then (k, v) :: (k', v') :: rest
    else (k', v') :: put lt rest k v

def del (m : Map) (k : Key) : Map := m.filter (fun kv => decide (kv.1 ≠ k))

/-- strictly sorted by `lt` -/
def Sorted (lt : Key → Key → Bool) (m : Map) : Prop := m.Pairwise (fun a b => lt a.1 b.1 = true)

end AgModel.OrdMap
