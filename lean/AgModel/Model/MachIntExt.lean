import AgModel.Model.MachInt
/-!
# Machine-integer layer, part 2: `Duration` / timeout arithmetic of Votor, `Stake`, `Fraction::cmp`, `Slot::windows`

Same conventions as `Model/MachInt.lean`: machine form on `UInt64` (u32 / u128 values: `Nat` with explicit range
checks), `Option` result, `none` = the Rust expression panics (or, for `checked_*`, returns `None`).

`std::time::Duration` is `{ secs: u64, nanos: u32 }` with the invariant `nanos < 10^9` (`Dur.wf`).
-/
namespace AgModel.MachInt
open AgModel

/-- `NANOS_PER_SEC` -/
def NPS : Nat := 1000000000

/-- `std::time::Duration` (`nanos` is the u32 field, as a `Nat`) -/
structure Dur where
  secs : UInt64
  nanos : Nat
deriving DecidableEq, Repr

/-- the type invariant of `Duration` -/
def Dur.wf (d : Dur) : Prop := d.nanos < NPS
instance (d : Dur) : Decidable d.wf := by unfold Dur.wf; infer_instance
/-- `as_nanos()` (u128: `secs * 10^9 + nanos < 2^94`, cannot overflow) -/
def Dur.toNanos (d : Dur) : Nat := d.secs.toNat * NPS + d.nanos

/-- `Duration::from_millis(ms)`: `secs = ms / 1000`, `nanos = (ms % 1000) as u32 * 1_000_000` (< 10^9: no overflow) -/
def Dur.fromMillis (ms : UInt64) : Dur := ⟨ms / 1000, (ms % 1000).toNat * 1000000⟩

/-- `checked_add`: `secs.checked_add(rhs.secs)?`, `nanos = self.nanos + rhs.nanos` (u32, < 2*10^9 < 2^32),
    `if nanos >= NANOS_PER_SEC { nanos -= NANOS_PER_SEC; secs = secs.checked_add(1)? }` -/
def Dur.checkedAdd (a b : Dur) : Option Dur :=
  match cadd a.secs b.secs with
  | none => none
  | some s =>
    let n := a.nanos + b.nanos
    if n ≥ NPS then
      match cadd s 1 with
      | none => none
      | some s' => some ⟨s', n - NPS⟩
    else some ⟨s, n⟩
/-- `a + b` on `Duration`: `checked_add(rhs).expect("overflow when adding durations")`; `none` = panic -/
def Dur.add (a b : Dur) : Option Dur := a.checkedAdd b

/-- `checked_sub` -/
def Dur.checkedSub (a b : Dur) : Option Dur :=
  match csub a.secs b.secs with
  | none => none
  | some s =>
    if a.nanos ≥ b.nanos then some ⟨s, a.nanos - b.nanos⟩
    else
      match csub s 1 with
      | none => none
      | some s' => some ⟨s', a.nanos + NPS - b.nanos⟩
/-- `saturating_sub`: `checked_sub` or `Duration::ZERO`; never panics -/
def Dur.saturatingSub (a b : Dur) : Dur := (a.checkedSub b).getD ⟨0, 0⟩

/-- `checked_mul(rhs: u32)`: `total_nanos = nanos as u64 * rhs as u64` (< 2^64), `extra_secs = total_nanos / 10^9`,
    `nanos = total_nanos % 10^9`, `secs.checked_mul(rhs as u64)?.checked_add(extra_secs)?`. `k` is the u32 factor. -/
def Dur.checkedMul (a : Dur) (k : UInt64) : Option Dur :=
  let total := a.nanos * k.toNat
  match cmul a.secs k with
  | none => none
  | some s =>
    match cadd s (UInt64.ofNat (total / NPS)) with
    | none => none
    | some s' => some ⟨s', total % NPS⟩
/-- `a * k` on `Duration`: `checked_mul(rhs).expect(..)` -/
def Dur.mul (a : Dur) (k : UInt64) : Option Dur := a.checkedMul k

/-- `Instant` (unix: `Timespec { tv_sec: i64, tv_nsec < 10^9 }`) -/
structure Inst where
  secs : Int
  nanos : Nat
deriving DecidableEq, Repr
def Inst.toNanos (t : Inst) : Int := t.secs * NPS + t.nanos
/-- `Instant::checked_add(Duration)`: `tv_sec.checked_add_unsigned(secs)?`, nanos carry with `checked_add(1)?` -/
def Inst.checkedAdd (t : Inst) (d : Dur) : Option Inst :=
  let s := t.secs + d.secs.toNat
  if s ≥ 2 ^ 63 then none else
  let n := t.nanos + d.nanos
  if n ≥ NPS then (if s + 1 ≥ 2 ^ 63 then none else some ⟨s + 1, n - NPS⟩) else some ⟨s, n⟩
/-- `tokio::time::sleep(d)`: deadline `Instant::now().checked_add(d)`, or `Instant::far_future()` (`none` here);
    never panics -/
def sleepDeadline (now : Inst) (d : Dur) : Option Inst := now.checkedAdd d

/-! ### the constants of `src/consensus.rs` -/

def DELTA : Dur := Dur.fromMillis (u Gen.DELTA_MS)
def DELTA_BLOCK : Dur := Dur.fromMillis (u Gen.DELTA_BLOCK_MS)
def DELTA_FIRST_SLICE : Dur := Dur.fromMillis (u Gen.DELTA_FIRST_SLICE_MS)
/-- `DELTA.checked_mul(3).unwrap()` (const: `none` would be a compile error) -/
def DELTA_TIMEOUT : Option Dur := DELTA.checkedMul (u Gen.DELTA_TIMEOUT_FACTOR)
/-- `const _: () = assert!(DELTA_FIRST_SLICE.as_nanos() <= DELTA_BLOCK.as_nanos())` -/
def constAssert : Bool := decide (DELTA_FIRST_SLICE.toNanos ≤ DELTA_BLOCK.toNanos)

/-! ### `Votor::set_timeouts` (`src/consensus/votor.rs:315-335`) -/

/-- `VotorTimeout` with the slot as a `Nat` -/
inductive TEv where
  | crashed (slot : Nat)
  | timeout (slot : Nat)
deriving DecidableEq, Repr

/-- the sleep before `Timeout(x)`: `DELTA_BLOCK.saturating_sub(DELTA_FIRST_SLICE)` for the window start, else
    `DELTA_BLOCK` -/
def slotSleep (x : UInt64) : Dur :=
  if isStart x then DELTA_BLOCK.saturatingSub DELTA_FIRST_SLICE else DELTA_BLOCK

/-- `set_timeouts(slot)`: `assert!(slot.is_start_of_window())`; the spawned task sleeps `DELTA_TIMEOUT +
    DELTA_FIRST_SLICE`, sends `TimeoutCrashedLeader(slot)`, then for every slot of the window sleeps `slotSleep` and
    sends `Timeout(s)`. Result: the sleeps in order, each with the event sent after it; `none` = panic. -/
def setTimeouts (s : UInt64) : Option (List (Dur × TEv)) :=
  if isStart s = false then none else
  match DELTA_TIMEOUT with
  | none => none
  | some dt =>
    match dt.add DELTA_FIRST_SLICE with
    | none => none
    | some d0 =>
      match slotsInWindow s with
      | none => none
      | some ws => some ((d0, .crashed s.toNat) :: ws.map (fun x => (slotSleep x, .timeout x.toNat)))

/-- when the events fire on an ideal clock, in ns after `acc`: consecutive sleeps add up -/
def fireTimes : List (Dur × TEv) → Nat → List (Nat × TEv)
  | [], _ => []
  | (d, e) :: r, acc => (acc + d.toNanos, e) :: fireTimes r (acc + d.toNanos)

/-! Nat form: the timeout formula of the protocol, `Timeout(i) = Δtimeout + (i - s + 1) · Δblock` after the window's
    `ParentReady`, in ns -/
def natDeltaTimeoutNs : Nat := Gen.DELTA_TIMEOUT_FACTOR * Gen.DELTA_MS * 1000000
def natDeltaBlockNs : Nat := Gen.DELTA_BLOCK_MS * 1000000
def natDeltaFirstSliceNs : Nat := Gen.DELTA_FIRST_SLICE_MS * 1000000
/-- the timeout of the `i`-th slot (0-based) of a window -/
def natTimeout (i : Nat) : Nat := natDeltaTimeoutNs + (i + 1) * natDeltaBlockNs
/-- the crashed-leader timeout of a window -/
def natCrashed : Nat := natDeltaTimeoutNs + natDeltaFirstSliceNs
/-- the whole window starting at `f` -/
def natSchedule (f : Nat) : List (Nat × TEv) :=
  (natCrashed, .crashed f) :: (List.range W).map (fun i => (natTimeout i, .timeout (f + i)))
/-- the slots whose `Timeout` fires, in firing order -/
def timeoutSlots : List (Nat × TEv) → List Nat
  | [] => []
  | (_, .timeout s) :: r => s :: timeoutSlots r
  | (_, .crashed _) :: r => timeoutSlots r

/-! ### `src/types/stake.rs` -/

/-- `Stake + Stake` (`derive_more::Add`), `+=` -/
def stakeAdd (a b : UInt64) : Option UInt64 := cadd a b
/-- `Stake::checked_add`: `none` = `None` -/
def stakeCheckedAdd (a b : UInt64) : Option UInt64 := cadd a b
/-- `Stake - Stake`, `-=` -/
def stakeSub (a b : UInt64) : Option UInt64 := csub a b
/-- `Stake * u64` -/
def stakeMul (a k : UInt64) : Option UInt64 := cmul a k
/-- `Stake::div_ceil` = `u64::div_ceil`: `d = self / rhs; r = self % rhs; if r > 0 { d + 1 } else { d }` -/
def stakeDivCeil (a d : UInt64) : Option UInt64 :=
  match cdiv a d, cmod a d with
  | some q, some r => if r.toNat > 0 then cadd q 1 else some q
  | _, _ => none

/-! ### `Fraction::cmp` / `partial_cmp` / `eq` (`src/types/fraction.rs:62-81`) -/

/-- `Ord::cmp`: `lhs = n1 as u128 * d2 as u128; rhs = n2 as u128 * d1 as u128; lhs.cmp(&rhs)` -/
def fracCmp (n1 d1 n2 d2 : UInt64) : Option Ordering :=
  match mul128 n1 d2, mul128 n2 d1 with
  | some l, some r => some (compare l r)
  | _, _ => none
/-- `PartialEq::eq`: `self.cmp(other) == Ordering::Equal` -/
def fracEq (n1 d1 n2 d2 : UInt64) : Option Bool := (fracCmp n1 d1 n2 d2).map (· == .eq)

/-! ### `Slot::windows()` (`src/types/slot.rs:41-43`): `(0..).step_by(W).map(Self)` -/

/-- `StepBy<RangeFrom<u64>>::next` after the first element: `self.iter.nth(step - 1)`, and `RangeFrom::nth(n)` is
    `plus_n = Step::forward(start, n); start = Step::forward(plus_n, 1); Some(plus_n)` (both overflow-checked) -/
def windowsFrom (start : UInt64) : Nat → Option (List UInt64)
  | 0 => some []
  | k + 1 =>
    match csub W64 1 with
    | none => none
    | some w1 =>
      match cadd start w1 with
      | none => none
      | some p =>
        match cadd p 1 with
        | none => none
        | some n =>
          match windowsFrom n k with
          | none => none
          | some rest => some (p :: rest)
/-- `Slot::windows().take(k)`, collected; the first element comes from `RangeFrom::next` (`first_take`) -/
def windows : Nat → Option (List UInt64)
  | 0 => some []
  | k + 1 =>
    match cadd 0 1 with
    | none => none
    | some n =>
      match windowsFrom n k with
      | none => none
      | some rest => some (0 :: rest)
/-- the iterator after `nth(j)` for `1 ≤ j`, `j * W < 2^64` (`StepBy::nth`: `first_take` consumes `next()`, then
    `iter.nth(j * W - 1)`): the element it returns and the next `m` elements -/
def windowsJump (j : UInt64) (m : Nat) : Option (List UInt64) :=
  match cmul j W64 with
  | none => none
  | some jw =>
    match csub jw 1 with
    | none => none
    | some n1 =>
      match cadd 1 n1 with
      | none => none
      | some p =>
        match cadd p 1 with
        | none => none
        | some n =>
          match windowsFrom n m with
          | none => none
          | some rest => some (p :: rest)

end AgModel.MachInt
