/-
Model of `DummyExecution` in `src/execution.rs` (import-free, executable), *as repaired* by the
`fix:` commit for D10 (`begin` = repaired `begin_block`; `beginOld` = pinned snapshot).

SHA-256 chaining `hash_all(&[state_hash, tx])` is idealised as the free constructor `SH.step`
(the state hash has fixed width, so `(state_hash, tx) ↦ state_hash ‖ tx` is injective; "unless a
SHA-256 collision"). `SH.block id` is the 32-byte value of block hash `id`; id `0` is
`GENESIS_BLOCK_HASH` (all zero), which is also what `parent = None` falls back to.
The event channel is not modelled (`try_send(..).expect(..)` panics when the receiver is gone or
the channel is full; the harness keeps a live receiver and drains it after every call).
-/
namespace AgModel.Exec

inductive SH where
  | block (id : Nat)
  | step (h : SH) (tx : Nat)
deriving DecidableEq, Repr, Inhabited

/-- `InProgressBlock` -/
inductive Ipb where
  | pending (slot : Nat)
  | known (slot : Nat) (hash : Nat)
deriving DecidableEq, Repr, Inhabited

def Ipb.slot : Ipb → Nat
  | .pending s => s
  | .known s _ => s

/-- `BlockExec` (with the `completed_as` field added by the repair) -/
structure BlockExec where
  txCount : Nat
  stateHash : SH
  completedAs : Option Nat
deriving DecidableEq, Repr, Inhabited

/-- `BTreeMap<InProgressBlock, BlockExec>` as an association list with unique keys -/
abbrev Blocks := List (Ipb × BlockExec)

def lookup : Blocks → Ipb → Option BlockExec
  | [], _ => none
  | (k, v) :: rest, key => if k = key then some v else lookup rest key

/-- `BTreeMap::insert` (replace or add) -/
def insertB : Blocks → Ipb → BlockExec → Blocks
  | [], key, v => [(key, v)]
  | (k, w) :: rest, key, v => if k = key then (k, v) :: rest else (k, w) :: insertB rest key v

structure Engine where
  blocks : Blocks := []
deriving DecidableEq, Repr, Inhabited

/-- a block id `(slot, hash)` -/
abbrev BlockId := Nat × Nat

def completedAs (ph : Nat) (o : Option BlockExec) : Option BlockExec :=
  match o with
  | some ex => if ex.completedAs = some ph then some ex else none
  | none => none

/-- the seed computed by the repaired `begin_block`: the parent's computed state hash if a state
    was completed under exactly the parent's id (`Known(parent)` first, then `Pending(slot)`), else
    the parent's block hash, else genesis. -/
def seed (e : Engine) (parent : Option BlockId) : SH :=
  match parent with
  | none => .block 0
  | some (ps, ph) =>
    match completedAs ph (lookup e.blocks (.known ps ph)) with
    | some ex => ex.stateHash
    | none =>
      match completedAs ph (lookup e.blocks (.pending ps)) with
      | some ex => ex.stateHash
      | none => .block ph

/-- the seed of the pinned snapshot: any `Known(parent)` state, else *whatever* is pending in the
    parent's slot, finished or not (defect D10). -/
def seedOld (e : Engine) (parent : Option BlockId) : SH :=
  match parent with
  | none => .block 0
  | some (ps, ph) =>
    match lookup e.blocks (.known ps ph) with
    | some ex => ex.stateHash
    | none =>
      match lookup e.blocks (.pending ps) with
      | some ex => ex.stateHash
      | none => .block ph

def begin (e : Engine) (id : Ipb) (parent : Option BlockId) : Engine :=
  ⟨insertB e.blocks id ⟨0, seed e parent, none⟩⟩

def beginOld (e : Engine) (id : Ipb) (parent : Option BlockId) : Engine :=
  ⟨insertB e.blocks id ⟨0, seedOld e parent, none⟩⟩

/-- `execute_transactions`: fold the transactions into the rolling hash (ignored for unknown ids) -/
def exec (e : Engine) (id : Ipb) (txs : List Nat) : Engine :=
  match lookup e.blocks id with
  | none => e
  | some ex => ⟨insertB e.blocks id { ex with stateHash := txs.foldl SH.step ex.stateHash, txCount := ex.txCount + txs.length }⟩

/-- the key `end_block` resolves a block id to -/
def endKey (e : Engine) (b : BlockId) : Ipb :=
  if (lookup e.blocks (.known b.1 b.2)).isSome then .known b.1 b.2 else .pending b.1

/-- `end_block`: new engine and the emitted `BlockExecuted { tx_count, state_commitment }`, if any -/
def endBlock (e : Engine) (b : BlockId) : Engine × Option (Nat × SH) :=
  match lookup e.blocks (endKey e b) with
  | none => (e, none)
  | some ex => (⟨insertB e.blocks (endKey e b) { ex with completedAs := some b.2 }⟩, some (ex.txCount, ex.stateHash))

/-- `end_block` of the pinned snapshot (no `completed_as`) -/
def endBlockOld (e : Engine) (b : BlockId) : Engine × Option (Nat × SH) :=
  match lookup e.blocks (endKey e b) with
  | none => (e, none)
  | some ex => (e, some (ex.txCount, ex.stateHash))

/-- `finalize`: `retain(|id, _| id.slot() >= block_id.0)` -/
def finalize (e : Engine) (b : BlockId) : Engine :=
  ⟨e.blocks.filter (fun kv => decide (b.1 ≤ kv.1.slot))⟩

end AgModel.Exec
