/-
Model of `DummyExecution` in `src/execution.rs` (import-free, executable), *as repaired* by the
`fix:` commit for D10 (`begin` = repaired `begin_block`; `beginOld` = pinned snapshot).

SHA-256 chaining `hash_all(&[state_hash, tx])` is idealised as the free constructor `SH.step`
(the state hash has fixed width, so `(state_hash, tx) ↦ state_hash ‖ tx` is injective; "unless a
SHA-256 collision"). `SH.block id` is the 32-byte value of block hash `id`; id `0` is
`GENESIS_BLOCK_HASH` (all zero), which is also what `parent = None` falls back to.
The event channel is not modelled (`try_send(..).expect(..)` panics when the receiver is gone or
the channel is full; the harness keeps a live receiver and drains it after every call).
-/
namespace AgModel.Exec

inductive SH where
  | block (id : Nat)
  | step (h : SH) (tx : Nat)
deriving DecidableEq, Repr, Inhabited

/-- `InProgressBlock` -/
inductive Ipb where
  | pending (slot : Nat)
  | known (slot : Nat) (hash : Nat)
deriving DecidableEq, Repr, Inhabited

def Ipb.slot : Ipb → Nat
  | .pending s => s
  | .known s _ => s

/-- `BlockExec` (with the `completed_as` field added by the repair) -/
structure BlockExec where
  txCount : Nat
  stateHash : SH
  completedAs : Option Nat
deriving DecidableEq, Repr, Inhabited

/-- `BTreeMap<InProgressBlock, BlockExec>` as an association list with unique keys -/
abbrev Blocks := List (Ipb × BlockExec)

def lookup : Blocks → Ipb → Option BlockExec
  | [], _ => none
  | (k, v) :: rest, key => if k = key then some v else lookup rest key

/-- `BTreeMap::insert` (replace or add) -/
def insertB : Blocks → Ipb → BlockExec → Blocks
  | [], key, v => [(key, v)]
  | (k, w) :: rest, key, v => if k = key then (k, v) :: rest else (k, w) :: insertB rest key v

structure Engine where
  blocks : Blocks := []
deriving DecidableEq, Repr, Inhabited

/-- a block id `(slot, hash)` -/
abbrev BlockId := Nat × Nat

def completedAs (ph : Nat) (o : Option BlockExec) : Option BlockExec :=
  match o with
  | some ex => if ex.completedAs = some ph then some ex else none
  | none => none

/-- the seed computed by the repaired `begin_block`: the parent's computed state hash if a state
    was completed under exactly the parent's id (`Known(parent)` first, then `Pending(slot)`), else
    the parent's block hash, else genesis. -/
def seed (e : Engine) (parent : Option BlockId) : SH :=
  match parent with
  | none => .block 0
  | some (ps, ph) =>
    match completedAs ph (lookup e.blocks (.known ps ph)) with
    | some ex => ex.stateHash
    | none =>
      match completedAs ph (lookup e.blocks (.pending ps)) with
      | some ex => ex.stateHash
      | none => .block ph

/-- the seed of the pinned snapshot: any `Known(parent)` state, else *whatever* is pending in the
    parent's slot, finished or not (defect D10). -/
def seedOld (e : Engine) (parent : Option BlockId) : SH :=
  match parent with
  | none => .block 0
  | some (ps, ph) =>
    match lookup e.blocks (.known ps ph) with
    | some ex => ex.stateHash
    | none =>
      match lookup e.blocks (.pending ps) with
      | some ex => ex.stateHash
      | none => .block ph

def begin (e : Engine) (id : Ipb) (parent : Option BlockId) : Engine :=
  ⟨insertB e.blocks id ⟨0, seed e parent, none⟩⟩

def beginOld (e : Engine) (id : Ipb) (parent : Option BlockId) : Engine :=
  ⟨insertB e.blocks id ⟨0, seedOld e parent, none⟩⟩

/-- `execute_transactions`: fold the transactions into the rolling hash (ignored for unknown ids) -/
def exec (e : Engine) (id : Ipb) (txs : List Nat) : Engine :=
  match lookup e.blocks id with
  | none => e
  | some ex => ⟨insertB e.blocks id { ex with stateHash := txs.foldl SH.step ex.stateHash, txCount := ex.txCount + txs.length }⟩

/-- the key `end_block` resolves a block id to -/
def endKey (e : Engine) (b : BlockId) : Ipb :=
  if (lookup e.blocks (.known b.1 b.2)).isSome then .known b.1 b.2 else .pending b.1

/-- `end_block`: new engine and the emitted `BlockExecuted { tx_count, state_commitment }`, if any -/
def endBlock (e : Engine) (b : BlockId) : Engine × Option (Nat × SH) :=
  match lookup e.blocks (endKey e b) with
  | none => (e, none)
  | some ex => (⟨insertB e.blocks (endKey e b) { ex with completedAs := some b.2 }⟩, some (ex.txCount, ex.stateHash))

/-- `end_block` of the pinned snapshot (no `completed_as`) -/
def endBlockOld (e : Engine) (b : BlockId) : Engine × Option (Nat × SH) :=
  match lookup e.blocks (endKey e b) with
  | none => (e, none)
  | some ex => (e, some (ex.txCount, ex.stateHash))

/-- `finalize`: `retain(|id, _| id.slot() >= block_id.0)` -/
def finalize (e : Engine) (b : BlockId) : Engine :=
  ⟨e.blocks.filter (fun kv => decide (b.1 ≤ kv.1.slot))⟩

/-! ### Feeding the engine -/

/-- the four calls of the `ExecutionEngine` trait -/
inductive Op where
  | begin (id : Ipb) (parent : Option BlockId)
  | exec (id : Ipb) (txs : List Nat)
  | endB (b : BlockId)
  | fin (b : BlockId)
deriving DecidableEq, Repr

/-- an emitted `ExecutionEvent::BlockExecuted { block_id, result: Ok { tx_count, state_commitment } }` -/
abbrev Event := BlockId × Nat × SH

def stepOp (e : Engine) : Op → Engine × Option Event
  | .begin id parent => (begin e id parent, none)
  | .exec id txs => (exec e id txs, none)
  | .endB b => ((endBlock e b).1, (endBlock e b).2.map (fun r => (b, r.1, r.2)))
  | .fin b => (finalize e b, none)

/-- runs a call sequence from a fresh engine; events in emission order -/
def runFrom (e : Engine) : List Op → Engine × List Event
  | [] => (e, [])
  | op :: rest =>
    let r := stepOp e op
    let q := runFrom r.1 rest
    (q.1, (match r.2 with | some ev => [ev] | none => []) ++ q.2)

def run (ops : List Op) : Engine × List Event := runFrom {} ops

/-! ### Specification engine

What the property says the engine computes, with nothing folded yet: per key the *seed* chosen when
the block began and the complete transaction sequence streamed since. The reported commitment is
by definition `txs.foldl step seed`, the seed rule is `specSeed`. `Proofs.Exec` shows the engine
refines it. -/

structure GBlock where
  seed : SH
  txs : List Nat
  completedAs : Option Nat
deriving DecidableEq, Repr, Inhabited

/-- the commitment of a block state: the seed folded over the whole transaction sequence -/
def GBlock.commitment (g : GBlock) : SH := g.txs.foldl SH.step g.seed

def GBlock.abs (g : GBlock) : BlockExec := ⟨g.txs.length, g.commitment, g.completedAs⟩

abbrev GBlocks := List (Ipb × GBlock)

def glookup : GBlocks → Ipb → Option GBlock
  | [], _ => none
  | (k, v) :: rest, key => if k = key then some v else glookup rest key

def ginsert : GBlocks → Ipb → GBlock → GBlocks
  | [], key, v => [(key, v)]
  | (k, w) :: rest, key, v => if k = key then (k, v) :: rest else (k, w) :: ginsert rest key v

def gcompletedAs (ph : Nat) (o : Option GBlock) : Option GBlock :=
  match o with
  | some g => if g.completedAs = some ph then some g else none
  | none => none

/-- seed rule of the property: the commitment of the parent if a state was *completed under exactly
    the parent's id* (`Known(parent)` before `Pending(parent slot)`), otherwise the parent block
    hash (genesis when there is no parent). -/
def specSeed (g : GBlocks) (parent : Option BlockId) : SH :=
  match parent with
  | none => .block 0
  | some (ps, ph) =>
    match gcompletedAs ph (glookup g (.known ps ph)) with
    | some p => p.commitment
    | none =>
      match gcompletedAs ph (glookup g (.pending ps)) with
      | some p => p.commitment
      | none => .block ph

def gendKey (g : GBlocks) (b : BlockId) : Ipb :=
  if (glookup g (.known b.1 b.2)).isSome then .known b.1 b.2 else .pending b.1

def gstepOp (g : GBlocks) : Op → GBlocks × Option Event
  | .begin id parent => (ginsert g id ⟨specSeed g parent, [], none⟩, none)
  | .exec id txs =>
    (match glookup g id with
     | none => g
     | some b => ginsert g id { b with txs := b.txs ++ txs }, none)
  | .endB b =>
    match glookup g (gendKey g b) with
    | none => (g, none)
    | some x => (ginsert g (gendKey g b) { x with completedAs := some b.2 }, some (b, x.txs.length, x.commitment))
  | .fin b => (g.filter (fun kv => decide (b.1 ≤ kv.1.slot)), none)

def grunFrom (g : GBlocks) : List Op → GBlocks × List Event
  | [] => (g, [])
  | op :: rest =>
    let r := gstepOp g op
    let q := grunFrom r.1 rest
    (q.1, (match r.2 with | some ev => [ev] | none => []) ++ q.2)

def grun (ops : List Op) : GBlocks × List Event := grunFrom [] ops

end AgModel.Exec
