import AgModel.Gen.Consts
/-
Keys of `src/execution/state.rs` (import-free, executable).

An `Address` is `[u8; 32]`; the model uses the list of its 32 byte values. `chunkAt` is the
arithmetic of `chunk_at` (state.rs l.328-335) transcribed operation by operation:

    let bit = depth * BITS_PER_LEVEL;
    let hi = u16::from(key[bit / 8]) << 8;                       -- `key[..]` panics when bit/8 ≥ 32
    let lo = key.get(bit / 8 + 1).copied().map_or(0, u16::from);
    let window = u32::from(hi | lo);                              -- disjoint bits: hi | lo = hi + lo
    (window >> (16 - BITS_PER_LEVEL - bit % 8)) & (FANOUT - 1)    -- FANOUT = 2^BITS_PER_LEVEL

The index `key[bit / 8]` panics exactly for `depth ≥ numChunks` (= 52); the trie model makes that
panic explicit (fuel of `splitLeaves`), `chunkAt` itself is totalised with `getD`.
-/
namespace AgModel.Trie

abbrev Key := List Nat

/-- `BITS_PER_LEVEL` (tied to the source by `Gen.Consts`). -/
def bitsPerLevel : Nat := AgModel.Gen.STATE_BITS_PER_LEVEL

/-- number of bytes of an `Address` -/
def keyBytes : Nat := 32

/-- number of depths at which `chunk_at` does not panic: ⌈256 / BITS_PER_LEVEL⌉ = 52 -/
def numChunks : Nat := (keyBytes * 8 + bitsPerLevel - 1) / bitsPerLevel

/-- a real `[u8; 32]` -/
def ValidKey (k : Key) : Prop := k.length = keyBytes ∧ ∀ b ∈ k, b < 256

def validKey (k : Key) : Bool := k.length == keyBytes && k.all (· < 256)

def chunkAt (key : Key) (depth : Nat) : Nat :=
  let bit := depth * bitsPerLevel
  let hi := key.getD (bit / 8) 0 * 256
  let lo := key.getD (bit / 8 + 1) 0
  ((hi + lo) / 2 ^ (16 - bitsPerLevel - bit % 8)) % 2 ^ bitsPerLevel

/-- all chunks of a key, most significant first -/
def chunks (k : Key) : List Nat := (List.range numChunks).map (chunkAt k)

/-- strict lexicographic order on lists of naturals (the order of `[u8; 32]` / `BTreeMap<Address, _>`
    when applied to keys; the trie's iteration order when applied to `chunks`). -/
def lexLt : List Nat → List Nat → Bool
  | [], [] => false
  | [], _ :: _ => true
  | _ :: _, [] => false
  | a :: as, b :: bs => a < b || (a == b && lexLt as bs)

/-- key order used by the trie (chunk-lexicographic). `Proofs.TrieKey.chunks_lex_iff` shows it is
    the byte-lexicographic order of valid keys. -/
def keyLt (k1 k2 : Key) : Bool := lexLt (chunks k1) (chunks k2)

end AgModel.Trie
