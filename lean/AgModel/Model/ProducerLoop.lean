import AgModel.Model.BlockProducer
/-
Model of the leader's WINDOW logic, `BlockProducer::block_production_loop` (block_producer.rs 102-170) around
`wait_for_first_slot` (512-567) and the two per-block producers (model: `AgModel.BlockProducer.produce`).

One iteration of `for first_slot_in_window in Slot::windows()`:
* `leader(first_slot).id != own_id`                                   -> `continue`          (`Verdict.notLeader`)
* `wait_for_first_slot` (genesis window: `Ready(genesis)` at once; ParentReady already in the pool / first on the
  channel: `Ready(parent)`; block of the previous slot in the blockstore first: `ParentReadyNotSeen((first-1, hash))`;
  `finalized_slot() >= first_slot` first: `Skip`)                     -> `BlockProducer.waitForFirstSlot`
* `Skip`                                                              -> `continue`          (`Verdict.skip`)
* `Ready(parent)`: slot 0 is NOT produced, `block_id = (0, GENESIS_BLOCK_HASH)`; otherwise
  `produce_block_parent_ready(first, parent)`; `ParentReadyNotSeen(parent, rx)`: `produce_block_parent_not_ready`
* `for slot in slots_in_window().skip(1) { block_id = produce_block_parent_ready(slot, block_id) }`

The environment inputs: what `wait_for_first_slot` observed first (`FirstSlotIn`), per produced slot the inputs of the
per-block model (`List SliceIn`) and the hash `add_own_slice` reported for the completed block (an interned id: the
content hash is C13's / C15's business). A production that does not complete on its inputs (`blocked`: still awaiting;
`panicked`: dead branch, see `slice_fits_budget`) ends the replay (`Verdict.stuck`): the real loop is then still inside
that `await` (or returned the error through `?`).
-/
namespace AgModel.BlockProducer.Loop
open AgModel.BlockProducer

/-- `SLOTS_PER_WINDOW` -/
def W : Nat := AgModel.Gen.SLOTS_PER_WINDOW

/-- `(Slot::genesis(), GENESIS_BLOCK_HASH)` (hash id 0) -/
def GENESIS : Nat × Nat := (0, 0)

/-- a block the loop produced: `(slot, hash)` as returned by the producer, and the parent handed to `pool.add_block` -/
structure Produced where
  slot : Nat
  hash : Nat
  parent : Nat × Nat
deriving DecidableEq, Repr

structure BlockIn where
  ins : List SliceIn
  /-- the hash the blockstore computed for the completed block -/
  hash : Nat
deriving DecidableEq, Repr

structure WindowIn where
  /-- what `wait_for_first_slot` sees (`genesisWindow` is overwritten by the window index) -/
  first : FirstSlotIn
  /-- `delta_block == delta_first_slice` -/
  eq : Bool
  /-- inputs of the productions of this window, in order -/
  blocks : List BlockIn
deriving DecidableEq, Repr

inductive Verdict where
  /-- `continue`: not the leader of the window -/
  | notLeader
  /-- `continue`: `SlotReady::Skip` -/
  | skip
  /-- `wait_for_first_slot` has not returned on these inputs -/
  | waiting
  /-- some production of the window has not completed on these inputs -/
  | stuck
  /-- the iteration ran to its end -/
  | complete
deriving DecidableEq, Repr

structure WRes where
  verdict : Verdict
  blocks : List Produced
deriving DecidableEq, Repr

/-- the productions for the given slots in order: the first through the entry point `m` on `par`, every further one
    through `produce_block_parent_ready` on the `block_id` just returned. `true`: all of them completed. -/
def produceSlots (eq : Bool) : List Nat → Mode → Nat × Nat → List BlockIn → List Produced × Bool
  | [], _, _, _ => ([], true)
  | _ :: _, _, _, [] => ([], false)
  | s :: ss, m, par, b :: bs =>
    let r := produce ⟨m, s, par, eq⟩ b.ins
    if r.1.status = .done then
      let t := produceSlots eq ss .ready (s, b.hash) bs
      (⟨s, b.hash, r.1.parent⟩ :: t.1, t.2)
    else ([], false)

def fin (r : List Produced × Bool) : WRes := ⟨if r.2 then .complete else .stuck, r.1⟩

/-- `first_slot_in_window.slots_in_window()` -/
def windowSlots (w : Nat) : List Nat := List.range' (w * W) W

/-- what the window is entered with: `none` = nothing to produce (not leader / skip / still waiting) -/
def entry (leader : Nat → Nat) (me w : Nat) (i : WindowIn) : Verdict ⊕ (List Nat × Mode × (Nat × Nat)) :=
  if leader (w * W) ≠ me then .inl .notLeader
  else match waitForFirstSlot (w * W) { i.first with genesisWindow := decide (w = 0) } with
    | none => .inl .waiting
    | some .skip => .inl .skip
    | some (.ready p) =>
      if w * W = 0 then .inr ((windowSlots w).drop 1, .ready, (w * W, GENESIS.2))
      else .inr (windowSlots w, .ready, p)
    | some (.parentReadyNotSeen p) => .inr (windowSlots w, .notReady, p)

/-- one iteration of the loop of `block_production_loop` for window `w` (first slot `w * W`) of the node `me` under
    the leader schedule `leader` (slot -> validator) -/
def produceWindow (leader : Nat → Nat) (me w : Nat) (i : WindowIn) : WRes :=
  match entry leader me w i with
  | .inl v => ⟨v, []⟩
  | .inr (slots, m, p) => fin (produceSlots i.eq slots m p i.blocks)

end AgModel.BlockProducer.Loop
