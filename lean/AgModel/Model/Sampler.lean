import AgModel.Gen.Consts
/-
Model of `src/disseminator/rotor/sampling_strategy.rs` in exact (natural-number) arithmetic
(import-free, executable).

Validators are `0 … n-1`, a stake distribution is a `List Nat`.  The random source (`R: Rng`,
`WeightedIndex::sample`, `random_bool`, the fixed-seed shuffle of `PartitionSampler::new`) is a
parameter: the model describes the *deterministic structure* each strategy pre-computes (FA1 seats and
residual stakes, the bin partition, the FA2 rounding assertion, the decaying-acceptance cap) and the
set of committees a draw can return (`…Valid` predicates), not the distribution.
`None` / `.panic` are the code's panics (`expect`, `assert!`, checked arithmetic).

FA1 seat allocation follows the code *as repaired* (fix D18): `floor(stake·k/total)` in integers.
The pinned snapshot computed it in `f64` (`(stake as f64 / total as f64 * k as f64).floor()`), which
under-allocates (e.g. 29/100, k = 100 → 28) and can over-allocate (then `Stake` underflows).

`PartitionSampler::new` follows the code *as repaired* (fix D8): `stake · num_bins` units per validator,
bins of exactly `total` units.  The pinned snapshot filled bins of `⌈total/num_bins⌉` stake and left
trailing bins empty (→ panic) whenever `total ≤ (num_bins-1)·⌈total/num_bins⌉`: kept as `partitionOld`.
-/
namespace AgModel.Sampler

def total (stakes : List Nat) : Nat := stakes.sum

/-- FA1 seats of a validator: `floor(stake · k / total)`. -/
def seats (T k s : Nat) : Nat := s * k / T

/-- the stake removed for the seats: `samples * total / k`. -/
def cut (T k s : Nat) : Nat := seats T k s * T / k

/-- residual stake `S'(v) = S(v) - floor(S(v)·k/T)·T/k` (`v.stake -= …`; `Nat` subtraction would hide
    an underflow panic: `Props.C17.fa1_cut_le` shows there is none). -/
def residual (T k s : Nat) : Nat := s - cut T k s

/-- `required_samples`: validator `i` repeated `seats` times, in validator order. -/
def requiredFrom (T k : Nat) : Nat → List Nat → List Nat
  | _, [] => []
  | i, s :: rest => List.replicate (seats T k s) i ++ requiredFrom T k (i + 1) rest

def required (stakes : List Nat) (k : Nat) : List Nat := requiredFrom (total stakes) k 0 stakes

def residuals (stakes : List Nat) (k : Nat) : List Nat := stakes.map (residual (total stakes) k)

/-- what both FA1 constructors compute before building the fallback sampler. -/
structure Fa1 where
  req : List Nat
  kPrime : Nat
  allZero : Bool
  /-- stake vector handed to the fallback sampler (the original stakes when all residuals are 0) -/
  weights : List Nat
deriving Repr, DecidableEq

/-- FA1 pre-processing.  Panics: `… / k` with `k = 0`, `… / total` with `total = 0`,
    `k as usize - required_samples.len()` underflow (never: `Props.C17.fa1_seats_sum_le_k`). -/
def fa1 (stakes : List Nat) (k : Nat) : Option Fa1 :=
  if stakes = [] then some ⟨[], k, true, []⟩
  else if k = 0 ∨ total stakes = 0 then none
  else
    let req := required stakes k
    if req.length > k then none
    else
      let res := residuals stakes k
      let allZero := res.all (· == 0)
      some ⟨req, k - req.length, allZero, if allZero then stakes else res⟩

/-! ## PartitionSampler -/

/-- `Stake::div_ceil`. -/
def divCeil (a b : Nat) : Nat := (a + b - 1) / b

structure PState where
  /-- completed bins, most recent first -/
  done : List (List (Nat × Nat))
  /-- entries `(validator, stake taken)` of the current bin, most recent first -/
  cur : List (Nat × Nat)
  curIdx : Nat
  curStake : Nat
deriving Repr

/-- the `while units > 0` loop of `PartitionSampler::new` for one validator (`spb` = capacity of a
    bin, `stake` = what the validator still has to place; both in the same unit). -/
def placeOne (spb numBins : Nat) : Nat → PState → Nat → Nat → PState
  | 0, st, _, _ => st
  | fuel + 1, st, id, stake =>
    if stake = 0 then st
    else
      let take := min stake (spb - st.curStake)
      let cs := st.curStake + take
      let rest := stake - take
      let cur' := (id, take) :: st.cur
      let st' : PState :=
        if st.curIdx < numBins - 1 ∧ (rest > 0 ∨ cs = spb) then
          ⟨cur'.reverse :: st.done, [], st.curIdx + 1, 0⟩
        else ⟨st.done, cur', st.curIdx, cs⟩
      placeOne spb numBins fuel st' id rest

def placeAll (spb numBins : Nat) (weights : List Nat) : PState → List Nat → PState
  | st, [] => st
  | st, id :: rest => placeAll spb numBins weights (placeOne spb numBins (numBins + 2) st id (weights.getD id 0)) rest

/-- all `num_bins` bins after the partition loop (trailing bins that were never reached are empty). -/
def binsOf (numBins : Nat) (st : PState) : List (List (Nat × Nat)) :=
  (st.cur.reverse :: st.done).reverse ++ List.replicate (numBins - st.curIdx - 1) []

/-- The pinned snapshot's `PartitionSampler::new` (before fix D8): bins of `⌈total/num_bins⌉` stake
    filled front to back.  `none` = the `expect` on `WeightedIndex::new` of an empty trailing bin. -/
def partitionOld (weights : List Nat) (order : List Nat) (numBins : Nat) : Option (List (List (Nat × Nat))) :=
  if numBins = 0 then some []
  else
    let spb := divCeil (total weights) numBins
    let bins := binsOf numBins (placeAll spb numBins weights ⟨[], [], 0, 0⟩ order)
    if bins.any (·.isEmpty) then none else some bins

/-- order-independent characterisation of the D8 panic of `partitionOld`: some trailing bin stays
    empty iff the total does not reach into the last bin. -/
def partitionDegenerate (weights : List Nat) (numBins : Nat) : Bool :=
  numBins ≠ 0 && decide (total weights ≤ (numBins - 1) * divCeil (total weights) numBins)

/-- `u128::from(v.stake) * num_bins`: the units (of `1/num_bins` stake) every validator contributes. -/
def unitsOf (weights : List Nat) (numBins : Nat) : List Nat := weights.map (· * numBins)

/-- `PartitionSampler::new(validators, num_bins)` *as repaired* (fix D8) where `order` is the
    (fixed-seed) shuffled order of the validators with non-zero weight: the same front-to-back loop,
    run on `stake · num_bins` units per validator with bins of exactly `total` units.  The entries are
    `(validator, units taken)`.  `none` = the `expect` on `WeightedIndex::new` of an empty bin (only
    reachable with total stake 0: `Props.C17.partition_total`). -/
def partition (weights : List Nat) (order : List Nat) (numBins : Nat) : Option (List (List (Nat × Nat))) :=
  if numBins = 0 then some []
  else
    let bins := binsOf numBins (placeAll (total weights) numBins (unitsOf weights numBins) ⟨[], [], 0, 0⟩ order)
    if bins.any (·.isEmpty) then none else some bins

/-- sum of the weights of a bin. -/
def binSum (b : List (Nat × Nat)) : Nat := (b.map (·.2)).sum

/-- units of validator `v` inside one bin. -/
def unitsIn (v : Nat) (b : List (Nat × Nat)) : Nat := ((b.filter (·.1 == v)).map (·.2)).sum

/-- the order handed to `partition` lists exactly the validators of non-zero weight, once each. -/
def orderOk (weights : List Nat) (order : List Nat) : Bool :=
  (List.range weights.length).all (fun v => order.count v == (if weights.getD v 0 = 0 then 0 else 1))
    && order.all (· < weights.length)

/-! ## committees a draw may return -/

/-- IID stake-weighted draw: `k` members of non-zero weight (contract of `WeightedIndex`). -/
def iidValid (weights : List Nat) (k : Nat) (c : List Nat) : Bool :=
  c.length == k && c.all (fun v => v < weights.length && weights.getD v 0 > 0)

/-- uniform draw: `k` members. -/
def uniformValid (n k : Nat) (c : List Nat) : Bool := c.length == k && c.all (· < n)

/-- a `PartitionSampler::sample_quorum` result: the `j`-th entry is a validator of bin `j`. -/
def binsValid : List (List (Nat × Nat)) → List Nat → Bool
  | [], [] => true
  | b :: bs, v :: vs => b.any (fun e => e.1 == v && e.2 > 0) && binsValid bs vs
  | _, _ => false

/-- FA1 with partition fallback. -/
def fa1pValid (stakes : List Nat) (k : Nat) (order : List Nat) (c : List Nat) : Bool :=
  match fa1 stakes k with
  | none => false
  | some f =>
    c.take f.req.length == f.req &&
      (match partition f.weights order f.kPrime with
       | none => false
       | some bins => binsValid bins (c.drop f.req.length))

/-- FA1 with IID stake-weighted fallback. -/
def fa1wValid (stakes : List Nat) (k : Nat) (c : List Nat) : Bool :=
  match fa1 stakes k with
  | none => false
  | some f => c.take f.req.length == f.req && iidValid f.weights f.kPrime (c.drop f.req.length)

/-! ## FA2 -/

/-- `(x).round()` for `x = s·k/T ≥ 0`: round half away from zero = `floor((2·s·k + T) / (2·T))`. -/
def roundSeats (T k s : Nat) : Nat := (2 * s * k + T) / (2 * T)

/-- `FaitAccompli2Sampler::new`: `none` = `assert!(f.iter().sum::<f64>() <= 1.0)` of `minimize_f`
    fails (in exact arithmetic: `Σ round(sᵢ·k/T) > k`), or a division by zero.  Otherwise the
    required (FA1) samples and the "medium" validators (`fᵢ > relative stake`). -/
def fa2 (stakes : List Nat) (k : Nat) : Option (List Nat × List Nat) :=
  if stakes = [] then some ([], [])
  else if k = 0 ∨ total stakes = 0 then none
  else
    let T := total stakes
    if (stakes.map (roundSeats T k)).sum > k then none
    else
      some (required stakes k,
        (List.range stakes.length).filter (fun i => roundSeats T k (stakes.getD i 0) * T > stakes.getD i 0 * k))

/-- a committee FA2 may return (when it could be constructed): `k` members, starting with the
    required (FA1) samples; medium validators and fallback seats are any validators. -/
def fa2Valid (stakes : List Nat) (k : Nat) (c : List Nat) : Bool :=
  c.length == k && c.take (required stakes k).length == required stakes k && c.all (· < stakes.length)

/-! ## DecayingAcceptanceSampler -/

/-- `ceil(max_samples)` for `max_samples = num/den`. -/
def capOf (num den : Nat) : Nat := divCeil num den

/-- one accepted draw of validator `v`: possible only while `count/max_samples < 1`
    (`rng.random::<f64>() ∈ [0,1)` must be `≥ p_reject`). -/
def decayAccept (num den : Nat) (counts : List Nat) (v : Nat) : Option (List Nat) :=
  if counts.getD v 0 * den < num then some (counts.set v (counts.getD v 0 + 1)) else none

/-- replays a committee against the acceptance rule from fresh counters (`reset`). -/
def decayReplay (num den : Nat) : List Nat → List Nat → Option (List Nat)
  | counts, [] => some counts
  | counts, v :: vs =>
    match decayAccept num den counts v with
    | none => none
    | some c' => decayReplay num den c' vs

def decayValid (weights : List Nat) (num den k : Nat) (c : List Nat) : Bool :=
  iidValid weights k c && (decayReplay num den (List.replicate weights.length 0) c).isSome

/-! ## observable summaries used by the driver -/

def countOf (c : List Nat) (v : Nat) : Nat := c.count v

/-- the FA floor guarantee on a committee: every validator has at least `floor(f·k)` seats. -/
def floorGuarantee (stakes : List Nat) (k : Nat) (c : List Nat) : Bool :=
  (List.range stakes.length).all (fun v => c.count v ≥ seats (total stakes) k (stakes.getD v 0))

end AgModel.Sampler
