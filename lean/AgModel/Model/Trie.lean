import AgModel.Model.TrieKey
/-
Model of `src/execution/state.rs` (import-free, executable).

Representation. A Rust `Branch { bitmap, children }` is modelled by the *chain*
`cons c₀ child₀ (cons c₁ child₁ (… nil))` of its occupied chunks in increasing order: bit `c` of
`bitmap` is set iff the chain has an entry for `c`, and `children` is the list of the entries'
children in chain order (`child_index` = number of entries with a smaller chunk = popcount of the
masked bitmap). `Node.bitmap` recomputes the bitmap; the correspondence check compares the complete
structure (bitmaps included) of the real trie, read from its `Debug` output, with the model's.
`Arc` sharing is not modelled: forks are plain values (what `Arc::make_mut` path copying has to
achieve); that it does achieve it is checked on the real code by the fork-isolation oracle.

A `Node` is therefore either `leaf k v` or a chain (`nil` / `cons`). Well-formed tries never have a
leaf in `rest` position (`Node.wf`).

Panics of the Rust code are explicit: `Res.panic` / `none` results (`unreachable!` in `insert_rec`,
the index panic of `chunk_at` at depth 52 reachable only through `split_leaves` on equal keys,
`.expect("key was found by the lookup right before")`, `len -= 1` underflow).
-/
namespace AgModel.Trie

inductive Node where
  | leaf (k : Key) (v : Nat)
  | nil
  | cons (c : Nat) (child : Node) (rest : Node)
deriving DecidableEq, Repr, Inhabited

/-- `State { root, len }`; `State::new()` is the default value. -/
structure State where
  root : Node := .nil
  len : Nat := 0
deriving DecidableEq, Repr, Inhabited

/-- result of a write: new state and the previous value, or a panic of the Rust code -/
inductive Res where
  | ok (s : State) (old : Option Nat)
  | panic
deriving DecidableEq, Repr, Inhabited

/-- `State::get`'s loop: chain scan = `child_index`, then descend. -/
def getRec : Node → Nat → Key → Option Nat
  | .leaf k v, _, key => if k = key then some v else none
  | .nil, _, _ => none
  | .cons c ch rest, d, key => if chunkAt key d = c then getRec ch (d + 1) key else getRec rest d key

/-- `split_leaves(depth, leaf1, leaf2)`; fuel = number of depths left before `chunk_at` panics. -/
def splitLeaves : Nat → Nat → Key → Nat → Key → Nat → Option Node
  | 0, _, _, _, _, _ => none
  | f + 1, d, k1, v1, k2, v2 =>
    let c1 := chunkAt k1 d
    let c2 := chunkAt k2 d
    if c1 = c2 then (splitLeaves f (d + 1) k1 v1 k2 v2).map (fun sub => .cons c1 sub .nil)
    else if c1 < c2 then some (.cons c1 (.leaf k1 v1) (.cons c2 (.leaf k2 v2) .nil))
    else some (.cons c2 (.leaf k2 v2) (.cons c1 (.leaf k1 v1) .nil))

/-- `insert_rec(node, depth, key, value)` on the chain of a branch; `none` = panic. -/
def insertRec : Node → Nat → Key → Nat → Option (Node × Option Nat)
  | .leaf _ _, _, _, _ => none
  | .nil, d, key, v => some (.cons (chunkAt key d) (.leaf key v) .nil, none)
  | .cons c ch rest, d, key, v =>
    if chunkAt key d < c then some (.cons (chunkAt key d) (.leaf key v) (.cons c ch rest), none)
    else if chunkAt key d = c then
      match ch with
      | .leaf k' v' =>
        if k' = key then some (.cons c (.leaf key v) rest, some v')
        else (splitLeaves (numChunks - (d + 1)) (d + 1) k' v' key v).map (fun sub => (.cons c sub rest, none))
      | .nil => (insertRec .nil (d + 1) key v).map (fun r => (.cons c r.1 rest, r.2))
      | .cons c' ch' rest' => (insertRec (.cons c' ch' rest') (d + 1) key v).map (fun r => (.cons c r.1 rest, r.2))
    else (insertRec rest d key v).map (fun r => (.cons c ch r.1, r.2))

/-- the collapse rule of `remove_rec` (l.208-219): a branch left with a single leaf child becomes that leaf -/
def collapse : Node → Node
  | .cons _ (.leaf k v) .nil => .leaf k v
  | n => n

/-- `remove_rec(node, depth, key)` on the chain of a branch. -/
def removeRec : Node → Nat → Key → Node × Option Nat
  | .leaf k v, _, _ => (.leaf k v, none)
  | .nil, _, _ => (.nil, none)
  | .cons c ch rest, d, key =>
    if chunkAt key d = c then
      match ch with
      | .leaf k' v' => if k' = key then (rest, some v') else (.cons c (.leaf k' v') rest, none)
      | .nil => (.cons c .nil rest, none)
      | .cons c' ch' rest' =>
        match removeRec (.cons c' ch' rest') (d + 1) key with
        | (_, none) => (.cons c (.cons c' ch' rest') rest, none)
        | (sub, some old) => (.cons c (collapse sub) rest, some old)
    else
      let r := removeRec rest d key
      (.cons c ch r.1, r.2)

/-- `State::iter()` collected: in-order traversal (children in increasing chunk order). -/
def toList : Node → List (Key × Nat)
  | .leaf k v => [(k, v)]
  | .nil => []
  | .cons _ ch rest => toList ch ++ toList rest

/-- The explicit-stack loop of `Iter::next` (l.253-263), collected, with fuel: pop; a leaf is
    yielded; a branch pushes its children in reverse, i.e. they end up on top in chain order. -/
def chainChildren : Node → List Node
  | .cons _ ch rest => ch :: chainChildren rest
  | _ => []

def size : Node → Nat
  | .leaf _ _ => 1
  | .nil => 1
  | .cons _ ch rest => size ch + size rest + 1

def iterStack : Nat → List Node → List (Key × Nat)
  | 0, _ => []
  | _ + 1, [] => []
  | f + 1, .leaf k v :: st => (k, v) :: iterStack f st
  | f + 1, n :: st => iterStack f (chainChildren n ++ st)

/-- `bitmap` of the branch a chain stands for -/
def Node.bitmap : Node → Nat
  | .cons c _ rest => 2 ^ c + rest.bitmap
  | _ => 0

def State.get (s : State) (key : Key) : Option Nat := getRec s.root 0 key

def State.insert (s : State) (key : Key) (v : Nat) : Res :=
  match insertRec s.root 0 key v with
  | none => .panic
  | some (r, old) => .ok ⟨r, if old.isNone then s.len + 1 else s.len⟩ old

def State.remove (s : State) (key : Key) : Res :=
  match getRec s.root 0 key with
  | none => .ok s none                              -- fast path: nothing copied
  | some _ =>
    match removeRec s.root 0 key with
    | (_, none) => .panic                           -- `.expect("key was found by the lookup right before")`
    | (r, some old) => if s.len = 0 then .panic else .ok ⟨r, s.len - 1⟩ (some old)

def State.iter (s : State) : List (Key × Nat) := toList s.root

/-! ### Well-formedness (the canonical-structure invariant of l.277-279, plus key placement) -/

/-- `n` is exactly one leaf child and nothing else -/
def singleLeaf : Node → Bool
  | .cons _ (.leaf _ _) .nil => true
  | _ => false

/-- `wf n P lb`: `n` is the chain of a branch reached by the chunk path `P` (so at depth `P.length`),
    its chunks are `< 32`, strictly increasing and `≥ lb`; a leaf child's key has chunk path
    `P ++ [c]`; a branch child is non-empty, well-formed and not a single leaf (canonical). -/
def Node.wf : Node → List Nat → Nat → Bool
  | .leaf _ _, _, _ => false
  | .nil, _, _ => true
  | .cons c ch rest, P, lb =>
    decide (lb ≤ c) && decide (c < 32) &&
    (match ch with
     | .leaf k _ => decide ((chunks k).take (P.length + 1) = P ++ [c])
     | .nil => false
     | .cons c' ch' rest' => Node.wf (.cons c' ch' rest') (P ++ [c]) 0 && !singleLeaf (.cons c' ch' rest')) &&
    Node.wf rest P (c + 1)

/-- number of entries -/
def count : Node → Nat
  | .leaf _ _ => 1
  | .nil => 0
  | .cons _ ch rest => count ch + count rest

/-- reachable states: well-formed root chain and `len` = number of entries -/
def State.wf (s : State) : Bool := s.root.wf [] 0 && s.len == count s.root

end AgModel.Trie
