import Driver.Util
import AgModel.Model.Route
/-! Driver for C16: executes the ops of `harness/src/bin/c16.rs` on `AgModel.Route`.

ops (one output line each):
  rotor n slot c0 c1 …      set the Rotor context (committee observed on the real code)  -> `leader l`
  rsend s                   leader's `send` of shred index s                               -> `to r` | `panic`
  rfwd own s                `forward` by validator own                                     -> `to …` | `panic`
  rrun s                    loss-free FIFO run                                             -> `deliver …` | `deliver-incomplete …`
  turbine n f p0 … p(n-1)   set the Turbine context (permutation observed on the real code)-> `perm true|false`
  tsend own                 `send` by validator own (the leader)                          -> `to r` | `panic`
  tfwd own                  -> `to …` | `panic`
  trun ldr                  -> `deliver …` | `deliver-incomplete …`
  trivial n                 -> `to 0 … n-1`
  trivrun n                 -> `deliver …`
  idx slice shred           -> `idx k`   (`index_in_slot`)
-/
open AgModel.Route Driver

structure St where
  n : Nat := 0
  ldr : Nat := 0
  committee : List Nat := []
  f : Nat := 0
  perm : List Nat := []

def showList (tag : String) (l : List Nat) : String :=
  l.foldl (fun s x => s ++ " " ++ toString x) tag

def showOut : Out → String
  | .to ds => showList "to" ds
  | .panic => "panic"

def step (st : St) (ws : List String) : St × List String :=
  match ws with
  | "case" :: k :: _ => ({}, [s!"case {k}"])
  | "rotor" :: n :: slot :: cs =>
    let n := nat! n
    let l := leader n (nat! slot)
    ({ st with n := n, ldr := l, committee := nats cs }, [s!"leader {l}"])
  | ["rsend", s] => (st, [showOut (rotorSend st.n st.committee (nat! s))])
  | ["rfwd", own, s] => (st, [showOut (rotorForward st.n st.ldr (nat! own) st.committee (nat! s))])
  | ["rrun", s] =>
    let ok := rotorRunOk st.n st.ldr st.committee (nat! s)
    (st, [showList (if ok then "deliver" else "deliver-incomplete") (rotorRun st.n st.ldr st.committee (nat! s))])
  | "turbine" :: n :: f :: ps =>
    let perm := nats ps
    ({ st with n := nat! n, f := nat! f, perm := perm },
      [s!"perm {isPermOfRange perm && perm.length == nat! n}"])
  | ["tsend", own] => (st, [showOut (turbineSend st.perm st.f (nat! own))])
  | ["tfwd", own] => (st, [showOut (turbineForward st.perm st.f (nat! own))])
  | ["trun", l] =>
    let ok := turbineRunOk st.perm st.f (nat! l)
    (st, [showList (if ok then "deliver" else "deliver-incomplete") (turbineRun st.perm st.f (nat! l))])
  | ["trivial", n] => (st, [showOut (trivialSend (nat! n))])
  | ["trivrun", n] => (st, [showList "deliver" (trivialRun (nat! n))])
  | ["idx", a, b] => (st, [s!"idx {indexInSlot (nat! a) (nat! b)}"])
  | _ => (st, ["bad-op"])

def main : IO Unit := runDriver ({} : St) step
