import Driver.Util
import AgModel.Model.Cert
/-! Driver for C09: executes the ops of `harness/src/bin/c09.rs` on `AgModel.Cert`.

ops (one output line each):
  epoch k0 s0 k1 s1 ...                          -> `epoch <n> <total>`
  vote <payload> <signer> <parts>                -> ok | unknown-signer | invalid-sig | panic | decode-err
  cert N  s h <declared> <agg>                   -> ok | insufficient-stake | invalid-sig | panic | decode-err
  cert NF s h <declared> <optagg> <optagg>
  cert S  s   <declared> <optagg> <optagg>
  cert FF s h <declared> <agg>
  cert F  s   <declared> <agg>
payload := N s h | NF s h | S s | SF s | F s
parts   := <count> (<key> <payload>)*      a key >= 1000000 stands for a point of E(Fp) outside the prime-order
                                           subgroup (no validator has such a key): inside an aggregate it makes the
                                           verification fail like any foreign part; a vote signature containing one is
                                           rejected by the decoder (`IndividualSignature::read` checks subgroup membership)
agg     := A <numBits> <nwords> w.. <parts>        optagg := - | agg
-/
open AgModel.Cert Driver

def pPayload : List String → Payload × List String
  | "N" :: s :: h :: r => (.notar (nat! s) (nat! h), r)
  | "NF" :: s :: h :: r => (.notarFallback (nat! s) (nat! h), r)
  | "S" :: s :: r => (.skip (nat! s), r)
  | "SF" :: s :: r => (.skipFallback (nat! s), r)
  | "F" :: s :: r => (.final (nat! s), r)
  | r => (.final 0, r)

def pPartsN : Nat → List String → List Part × List String
  | 0, r => ([], r)
  | k + 1, key :: r =>
    let (p, r) := pPayload r
    let (ps, r) := pPartsN k r
    (⟨nat! key, p⟩ :: ps, r)
  | _ + 1, [] => ([], [])

def pParts : List String → List Part × List String
  | c :: r => pPartsN (nat! c) r
  | [] => ([], [])

/-- `none` = absent half; `some none` = bitmask rejected by the decoder -/
def pAgg : List String → Option (Option Agg) × List String
  | "-" :: r => (none, r)
  | "A" :: nb :: nw :: r =>
    let ws := nats (r.take (nat! nw))
    let (ps, r) := pParts (r.drop (nat! nw))
    match readBitvec AgModel.Gen.MAX_SIGNERS (nat! nb) ws with
    | none => (some none, r)
    | some bits => (some (some ⟨ps, bits⟩), r)
  | r => (none, r)

/-- key ids from here on denote points outside G1 (harness constant `TORSION`) -/
def offSubgroupKey : Nat := 1000000

def showV : Outcome VoteErr → String
  | .ok => "ok"
  | .err .unknownSigner => "unknown-signer"
  | .err .invalidSignature => "invalid-sig"
  | .panic => "panic"

def showC : Outcome CertErr → String
  | .ok => "ok"
  | .err .insufficientStake => "insufficient-stake"
  | .err .invalidSignature => "invalid-sig"
  | .panic => "panic"

def pVals : List Nat → List Validator
  | k :: s :: r => ⟨k, s⟩ :: pVals r
  | _ => []

/-- builds the certificate from the parsed halves; `none` = a decode error in some half, or a
    mandatory aggregate missing -/
def mkCert (ty : String) (s h st : Nat) (a1 a2 : Option (Option Agg)) : Option Cert :=
  match ty, a1, a2 with
  | _, some none, _ => none
  | _, _, some none => none
  | "N", some (some a), _ => some (.notar s h a st)
  | "FF", some (some a), _ => some (.fastFinal s h a st)
  | "F", some (some a), _ => some (.final s a st)
  | "NF", a1, a2 => some (.notarFallback s h (a1.bind id) (a2.bind id) st)
  | "S", a1, a2 => some (.skip s (a1.bind id) (a2.bind id) st)
  | _, _, _ => none

def step (e : Epoch) (ws : List String) : Epoch × List String :=
  match ws with
  | "case" :: k :: _ => (⟨[]⟩, [s!"case {k}"])
  | "epoch" :: r =>
    let e : Epoch := ⟨pVals (nats r)⟩
    (e, [s!"epoch {e.n} {e.total}"])
  | "vote" :: r =>
    let (p, r) := pPayload r
    match r with
    | signer :: r =>
      let (ps, _) := pParts r
      -- `IndividualSignature::read`: the identity point and points outside the subgroup are rejected by the decoder
      if ps.isEmpty || ps.any (fun p => decide (p.key ≥ offSubgroupKey)) then (e, ["decode-err"])
      else (e, [showV (validateVote e ⟨p, ps, nat! signer⟩)])
    | [] => (e, ["bad-op"])
  | "cert" :: ty :: r =>
    let hasHash := ty == "N" || ty == "NF" || ty == "FF"
    let s := nat! (r.headD "0")
    let h := if hasHash then nat! (r.getD 1 "0") else 0
    let r := r.drop (if hasHash then 2 else 1)
    let st := nat! (r.headD "0")
    let (a1, r) := pAgg (r.drop 1)
    let (a2, _) := if ty == "NF" || ty == "S" then pAgg r else (none, r)
    match mkCert ty s h st a1 a2 with
    | none => (e, ["decode-err"])
    | some c => (e, [showC (validateCert e c)])
  | _ => (e, ["bad-op"])

def main : IO Unit := runDriver (⟨[]⟩ : Epoch) step
