import Driver.Util
import Driver.PoolFmt
import AgModel.Model.Pool
/-! Driver for the pool harness (`harness/src/bin/pool.rs`), shared by C03, C04, C06, C18. -/
open AgModel.Pool Driver Driver.PoolFmt

structure St where
  pool : Pool := { epoch := { stakes := [], own := 0 } }
  dead : Bool := false

def step (st : St) (ws : List String) : St × List String :=
  match ws with
  | "case" :: k :: _ => ({}, [s!"case {k}"])
  | "epoch" :: own :: stakes =>
    let e : Epoch := { stakes := nats stakes, own := nat! own }
    ({ st with pool := { epoch := e } }, [s!"epoch n={e.n} total={e.total}"])
  | ["vote", k, s, h, v] =>
    let (p, verdict, evs) := st.pool.addVote { kind := parseVoteKind k, slot := nat! s, hash := nat! h, signer := nat! v }
    ({ st with pool := p }, [out verdict evs])
  | ["cert", k, s, h, a, b, stake] =>
    let c : Cert := { kind := parseCertKind k, slot := nat! s, hash := nat! h, sig1 := parseList a, sig2 := parseList b, stake := nat! stake }
    let (p, verdict, evs) := st.pool.addCert c
    ({ st with pool := p }, [out verdict evs])
  | ["block", s, h, ps, ph] =>
    let (p, evs) := st.pool.addBlock (nat! s, nat! h) (nat! ps, nat! ph)
    ({ st with pool := p }, [out .ok evs])
  | ["recover"] => (st, [out .ok st.pool.recover])
  | _ => (st, ["bad-op"])

def main : IO Unit := runDriver ({} : St) step
