import Driver.Util
import AgModel.Model.Pool
/-! Driver for the pool harness (`harness/src/bin/pool.rs`), shared by C03, C04, C06, C18. -/
open AgModel.Pool Driver

structure St where
  pool : Pool := { epoch := { stakes := [], own := 0 } }
  dead : Bool := false

def fmtList (l : List Nat) : String :=
  if l.isEmpty then "-" else ",".intercalate (l.map toString)

def parseList (s : String) : List Nat :=
  if s == "-" then [] else (s.splitOn ",").map nat!

def certKindName : CertKind → String
  | .notar => "notar" | .nf => "nf" | .skip => "skip" | .ff => "ff" | .final => "final"
def voteKindName : VoteKind → String
  | .notar => "notar" | .nf => "nf" | .skip => "skip" | .sf => "sf" | .final => "final"

def parseCertKind : String → CertKind
  | "notar" => .notar | "nf" => .nf | "skip" => .skip | "ff" => .ff | _ => .final
def parseVoteKind : String → VoteKind
  | "notar" => .notar | "nf" => .nf | "skip" => .skip | "sf" => .sf | _ => .final

def fmtCert (c : Cert) : String :=
  s!"cert {certKindName c.kind} {c.slot} {c.hash} {fmtList c.sig1} {fmtList c.sig2} {c.stake}"
def fmtVote (v : Vote) : String :=
  s!"vote {voteKindName v.kind} {v.slot} {v.hash} {v.signer}"

def sortStrs (l : List String) : List String := l.mergeSort (fun a b => !(b < a))

def fmtEvent : Event → String
  | .cert c => fmtCert c
  | .s2n s h => s!"s2n {s} {h}"
  | .s2s s => s!"s2s {s}"
  | .repair s h => s!"repair {s} {h}"
  | .parentReady s ps ph => s!"pr {s} {ps} {ph}"
  | .standstill s cs vs =>
    s!"standstill {s} [{" / ".intercalate (sortStrs (cs.map fmtCert))}] [{" / ".intercalate (sortStrs (vs.map fmtVote))}]"
  | .panic => "panic"

def fmtVerdict : Verdict → String
  | .ok => "ok" | .oob => "oob" | .dup => "dup" | .panic => "panic"
  | .slash .notarDifferentHash => "slash notarDifferentHash"
  | .slash .skipAndNotarize => "slash skipAndNotarize"
  | .slash .skipAndFinalize => "slash skipAndFinalize"
  | .slash .nfAndFinalize => "slash nfAndFinalize"

def out (v : Verdict) (evs : List Event) : String :=
  if evs.contains .panic then "panic | "
  else s!"{fmtVerdict v} | {" ; ".intercalate (sortStrs (evs.map fmtEvent))}"

def step (st : St) (ws : List String) : St × List String :=
  match ws with
  | "case" :: k :: _ => ({}, [s!"case {k}"])
  | "epoch" :: own :: stakes =>
    let e : Epoch := { stakes := nats stakes, own := nat! own }
    ({ st with pool := { epoch := e } }, [s!"epoch n={e.n} total={e.total}"])
  | ["vote", k, s, h, v] =>
    let (p, verdict, evs) := st.pool.addVote { kind := parseVoteKind k, slot := nat! s, hash := nat! h, signer := nat! v }
    ({ st with pool := p }, [out verdict evs])
  | ["cert", k, s, h, a, b, stake] =>
    let c : Cert := { kind := parseCertKind k, slot := nat! s, hash := nat! h, sig1 := parseList a, sig2 := parseList b, stake := nat! stake }
    let (p, verdict, evs) := st.pool.addCert c
    ({ st with pool := p }, [out verdict evs])
  | ["block", s, h, ps, ph] =>
    let (p, evs) := st.pool.addBlock (nat! s, nat! h) (nat! ps, nat! ph)
    ({ st with pool := p }, [out .ok evs])
  | ["recover"] => (st, [out .ok st.pool.recover])
  | _ => (st, ["bad-op"])

def main : IO Unit := runDriver ({} : St) step
