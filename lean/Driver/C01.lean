import Driver.Util
import Driver.PoolFmt
import AgModel.Model.Node
/-! Cluster driver (C01 / C02): `n` composed nodes (pool + votor models) driven by the operations of
    `harness/src/bin/cluster.rs`. -/
open AgModel AgModel.Node Driver Driver.PoolFmt

structure St where
  nodes : Array Node := #[]

def fmtOut : Votor.Out → Option String
  | .notar s h _ _ => some s!"notar {s} {h}"
  | .skip s => some s!"skip {s}"
  | .final s => some s!"final {s}"
  | .notarFallback s h => some s!"nf {s} {h}"
  | .skipFallback s => some s!"sf {s}"
  | .cert k s h =>
    let kn := match k with
      | .notar => "notar" | .notarFallback => "nf" | .skip => "skip" | .fastFinal => "ff" | .final => "final"
    some s!"cert {kn} {s} {h}"
  | .relay _ => none
  | .timer _ => none

def fmtOuts (dead : Bool) (os : List Votor.Out) : String :=
  if dead then "v | dead" else s!"v | {" ; ".intercalate (os.filterMap fmtOut)}"

def withNode (st : St) (j : Nat) (f : Node → Node × String) : St × List String :=
  match st.nodes[j]? with
  | none => (st, ["bad-node"])
  | some n =>
    let (n', out) := f n
    ({ st with nodes := st.nodes.setIfInBounds j n' }, [out])

def step (st : St) (ws : List String) : St × List String :=
  match ws with
  | "case" :: k :: _ => ({}, [s!"case {k}"])
  | "cluster" :: stakes =>
    let ss := nats stakes
    let nodes := (List.range ss.length).map (fun i => ({ pool := { epoch := { stakes := ss, own := i } } } : Node))
    ({ nodes := nodes.toArray }, [s!"cluster n={ss.length} total={ss.sum}"])
  | ["nv", j, k, s, h, v] =>
    withNode st (nat! j) (fun n =>
      let (n', verdict, evs) := recvVote n { kind := parseVoteKind k, slot := nat! s, hash := nat! h, signer := nat! v }
      (n', out verdict evs))
  | ["nc", j, k, s, h, a, b, stake] =>
    withNode st (nat! j) (fun n =>
      let c : Pool.Cert := { kind := parseCertKind k, slot := nat! s, hash := nat! h, sig1 := parseList a, sig2 := parseList b, stake := nat! stake }
      let (n', verdict, evs) := recvCert n c
      (n', out verdict evs))
  | ["pb", j, s, h, ps, ph] =>
    withNode st (nat! j) (fun n =>
      let (n', evs) := poolBlock n (nat! s, nat! h) (nat! ps, nat! ph)
      (n', out .ok evs))
  | ["pump", j] =>
    withNode st (nat! j) (fun n =>
      if n.queue.isEmpty then (n, "v | idle") else
      let (n', os) := pump n
      (n', fmtOuts n'.dead os))
  | ["vb", j, s, h, ps, ph] =>
    withNode st (nat! j) (fun n =>
      let (n', os) := votorStep n (.block (nat! s) { hash := nat! h, pslot := nat! ps, phash := nat! ph })
      (n', fmtOuts n'.dead os))
  | ["fs", j, s] =>
    withNode st (nat! j) (fun n => let (n', os) := votorStep n (.firstShred (nat! s)); (n', fmtOuts n'.dead os))
  | ["ib", j, s] =>
    withNode st (nat! j) (fun n => let (n', os) := votorStep n (.invalidBlock (nat! s)); (n', fmtOuts n'.dead os))
  | ["to", j, s] =>
    withNode st (nat! j) (fun n => let (n', os) := votorStep n (.timeout (nat! s)); (n', fmtOuts n'.dead os))
  | ["tc", j, s] =>
    withNode st (nat! j) (fun n => let (n', os) := votorStep n (.timeoutCrashed (nat! s)); (n', fmtOuts n'.dead os))
  | _ => (st, ["bad-op"])

def main : IO Unit := runDriver ({} : St) step
