import Driver.Util
import AgModel.Model.MachIntExt
/-! Driver for the machine-integer layer: executes the ops of `harness/src/bin/mi.rs` on `AgModel.MachInt`. -/
open AgModel.MachInt Driver

/-- current epoch: `some total` after a successful `epoch` op -/
structure St where
  epoch : Option UInt64 := none

def u64! (s : String) : UInt64 := UInt64.ofNat (nat! s)

def showO (r : Option UInt64) : String :=
  match r with
  | some v => toString v.toNat
  | none => "panic"

def showB (r : Option Bool) : String :=
  match r with
  | some b => toString b
  | none => "panic"

def showL (r : Option (List UInt64)) : String :=
  match r with
  | some [] => "-"
  | some l => " ".intercalate (l.map (fun x => toString x.toNat))
  | none => "panic"

def showD (r : Option Dur) : String :=
  match r with
  | some d => s!"{d.secs.toNat}.{d.nanos}"
  | none => "panic"

def all4 (a b c d : Option Bool) : String :=
  match a, b, c, d with
  | some a, some b, some c, some d => s!"{a} {b} {c} {d}"
  | _, _, _, _ => "panic"

def step (st : St) (ws : List String) : St × List String :=
  match ws with
  | "case" :: k :: _ => ({}, [s!"case {k}"])
  | ["first", s] => (st, [showO (first (u64! s))])
  | ["last", s] => (st, [showO (last (u64! s))])
  | ["next", s] => (st, [showO (next (u64! s))])
  | ["prev", s] => (st, [showO (prev (u64! s))])
  | ["isstart", s] => (st, [toString (isStart (u64! s))])
  | ["genwin", s] => (st, [showB (isGenesisWindow (u64! s))])
  | ["isgen", s] => (st, [toString (isGenesis (u64! s))])
  | ["window", s] => (st, [showL (slotsInWindow (u64! s))])
  | ["future", s, k] => (st, [showL (futureSlots (u64! s) (nat! k))])
  | ["ismet", n, d, v, t] => (st, [showB (isMet (u64! n) (u64! d) (u64! v) (u64! t))])
  | "epoch" :: ss =>
    match totalStake (ss.map u64!) with
    | some t => ({ epoch := some t }, [s!"total {t.toNat}"])
    | none => ({ epoch := none }, ["panic"])
  | ["quorums", s] =>
    match st.epoch with
    | none => (st, ["noepoch"])
    | some t =>
      let x := u64! s
      (st, [all4 (isWeakest t x) (isWeak t x) (isQuorum t x) (isStrong t x)])
  | ["leader", n, s] => (st, [showO (leader (u64! n) (u64! s))])
  -- fresh tracker: the loop of `mark_skipped` inspects slot s+1 and breaks (one `next()` of `future_slots`)
  | ["prskip", s] => (st, [if (futureSlots (u64! s) 1).isSome then "ok" else "panic"])
  -- `handle_implicitly_finalized`: `for slot in parent.future_slots()` runs until it yields the source slot (d elements)
  | ["finimpl", s, d] =>
    (st, [if (futureSlots (u64! s - u64! d) (nat! d)).isSome then "ok" else "panic"])
  -- `set_timeouts(s)`: `c<slot>@<ms>` / `t<slot>@<ms>`, ms after the call on an ideal clock (rounded up, as tokio does)
  | ["timeouts", s] =>
    match setTimeouts (u64! s) with
    | none => (st, ["panic"])
    | some sched =>
      let f := fireTimes sched 0
      (st, [" ".intercalate (f.map (fun (t, e) =>
        let ms := (t + 999999) / 1000000
        match e with
        | .crashed x => s!"c{x}@{ms}"
        | .timeout x => s!"t{x}@{ms}"))])
  | ["deltas"] =>
    match DELTA_TIMEOUT with
    | none => (st, ["panic"])
    | some dt => (st, [s!"{dt.toNanos} {DELTA_BLOCK.toNanos} {DELTA_FIRST_SLICE.toNanos}"])
  | ["dadd", s1, n1, s2, n2] =>
    (st, [showD (Dur.add ⟨u64! s1, nat! n1⟩ ⟨u64! s2, nat! n2⟩)])
  | ["dsub", s1, n1, s2, n2] =>
    (st, [showD (some (Dur.saturatingSub ⟨u64! s1, nat! n1⟩ ⟨u64! s2, nat! n2⟩))])
  | ["dmul", s1, n1, k] => (st, [showD (Dur.mul ⟨u64! s1, nat! n1⟩ (u64! k))])
  | ["dms", ms] => (st, [showD (some (Dur.fromMillis (u64! ms)))])
  | ["sadd", a, b] => (st, [showO (stakeAdd (u64! a) (u64! b))])
  | ["ssub", a, b] => (st, [showO (stakeSub (u64! a) (u64! b))])
  | ["smul", a, b] => (st, [showO (stakeMul (u64! a) (u64! b))])
  | ["sdivceil", a, b] => (st, [showO (stakeDivCeil (u64! a) (u64! b))])
  | ["fcmp", n1, d1, n2, d2] =>
    match fracCmp (u64! n1) (u64! d1) (u64! n2) (u64! d2), fracEq (u64! n1) (u64! d1) (u64! n2) (u64! d2) with
    | some o, some e => (st, [s!"{match o with | .lt => "lt" | .eq => "eq" | .gt => "gt"} {e}"])
    | _, _ => (st, ["panic"])
  | ["windows", k] => (st, [showL (windows (nat! k))])
  | ["winjump", j, m] => (st, [showL (windowsJump (u64! j) (nat! m))])
  | _ => (st, ["bad-op"])

def main : IO Unit := runDriver ({} : St) step
