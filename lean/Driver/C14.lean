import Driver.Util
import AgModel.Model.Repair
/-! Driver for C14: executes the ops of `harness/src/bin/c14.rs` on `AgModel.Repair`.

ops (one output line each):
  root <rid> bad | root <rid> ok <P> <T>      what slice root rid decodes to (as in C13)      -> ok
  hash <hid> junk | hash <hid> r1 r2 ..       block-hash id (double-Merkle root of the roots) -> ok
  dis <slot> <slice> <isLast> <root> <idx> <sz> <ty>     add_shred_from_dissemination         -> result | events
  repair <req L>                               Repair::repair_block                            -> step line
  timeout                                      earliest request timeout fires                  -> step line
  resp nack <req> | resp last <req> <lastSlice> <rid> <proof> | resp root <req> <rid> <proof>
     | resp shred <req> <slot> <slice> <isLast> <rid> <idx> <sz> <ty> <sigOk>                   -> step line
  ask <req>                                    RepairRequestHandler::answer_request            -> the response
  q blk <slot> <hid>
requests: L:<slot>:<hid>  R:<slot>:<hid>:<slice>  S:<slot>:<hid>:<slice>:<idx>
proofs:   P:<hid>:<i> (created proof)  PT:<hid>:<i>:<n> (truncated)  PJ:<hid>:<i>:<k> (element k junk)
          PX:<hid>:<i> (one junk element appended)  PE (empty)
step line: `sent=<n> <first> <last> out=<#L>,<#R>,<#S> ev=<events>` or `panic`
-/
open AgModel.Blockstore AgModel.Repair AgModel.Merkle Driver

structure St where
  env : List (Nat × Content) := []
  hashes : List (Nat × H) := []
  trees : List (Nat × List Nat) := []
  store : Store := []
  rs : RepairSt := RepairSt.init

def envFn (env : List (Nat × Content)) (r : Nat) : Content :=
  match env.find? (·.1 == r) with
  | some (_, c) => c
  | none => .bad

def hashOf (st : St) (hid : Nat) : H :=
  match st.hashes.find? (·.1 == hid) with
  | some (_, h) => h
  | none => .junk 0

def hidOf (st : St) (h : H) : String :=
  match st.hashes.find? (fun kv => decide (kv.2 = h)) with
  | some (k, _) => toString k
  | none => "h?"

def parseP (s : String) : Option (Nat × Nat) :=
  if s == "-" then none
  else match s.splitOn ":" with
    | [a, b] => some (nat! a, nat! b)
    | _ => none

def parseT (s : String) : Option (List Nat) :=
  if s == "x" then none
  else if s == "e" then some []
  else some ((s.splitOn ",").map nat!)

def bool! (s : String) : Bool := s == "1"
def b01 (b : Bool) : String := if b then "1" else "0"
def showP (p : Nat × Nat) : String := s!"{p.1}:{p.2}"
def checksum (txs : List Nat) : Nat := txs.foldl (fun c t => (c * 31 + t + 1) % 1000000007) 7

def parseReq (st : St) (s : String) : Req :=
  match s.splitOn ":" with
  | ["L", sl, h] => .last ⟨nat! sl, hashOf st (nat! h)⟩
  | ["R", sl, h, i] => .root ⟨nat! sl, hashOf st (nat! h)⟩ (nat! i)
  | ["S", sl, h, i, j] => .shred ⟨nat! sl, hashOf st (nat! h)⟩ (nat! i) (nat! j)
  | _ => .last ⟨0, .junk 0⟩

def showReq (st : St) : Req → String
  | .last b => s!"L:{b.slot}:{hidOf st b.hash}"
  | .root b i => s!"R:{b.slot}:{hidOf st b.hash}:{i}"
  | .shred b i j => s!"S:{b.slot}:{hidOf st b.hash}:{i}:{j}"

def treeOf (st : St) (hid : Nat) : List Nat :=
  match st.trees.find? (·.1 == hid) with
  | some (_, r) => r
  | none => [1]

def parseProof (st : St) (s : String) : List H :=
  match s.splitOn ":" with
  | ["P", h, i] => (Tree.new (treeOf st (nat! h))).createProof (nat! i)
  | ["PT", h, i, n] => ((Tree.new (treeOf st (nat! h))).createProof (nat! i)).take (nat! n)
  | ["PJ", h, i, k] => ((Tree.new (treeOf st (nat! h))).createProof (nat! i)).set (nat! k) (.junk 77)
  | ["PX", h, i] => (Tree.new (treeOf st (nat! h))).createProof (nat! i) ++ [.junk 78]
  | _ => []

def showEvent (st : St) : Event → String
  | .firstShred => "first"
  | .block i => s!"block {hidOf st i.hash} {showP i.parent}"
  | .invalidBlock => "invalid"

def showEvs (st : St) (evs : List Event) : String := " ".intercalate (evs.map fun e => "[" ++ showEvent st e ++ "]")

def showRes (st : St) : AddRes → String
  | .none => "none"
  | .ev .firstShred => "none"
  | .ev e => showEvent st e
  | .err .wrongType => "wrongtype"
  | .err .duplicate => "dup"
  | .err .equivocation => "equiv"
  | .err .invalidShred => "invalidshred"
  | .panic => "panic"

def countKinds (l : List Req) : String :=
  let a := l.countP (fun r => match r with | .last _ => true | _ => false)
  let b := l.countP (fun r => match r with | .root _ _ => true | _ => false)
  let c := l.countP (fun r => match r with | .shred _ _ _ => true | _ => false)
  s!"{a},{b},{c}"

def stepLine (st : St) (o : Out) : String :=
  if o.panic then "panic"
  else
    let fl := match o.sent with
      | [] => "- -"
      | x :: _ => s!"{showReq st x} {showReq st (o.sent.getLast?.getD x)}"
    s!"sent={o.sent.length} {fl} out={countKinds st.rs.outstanding} to={st.rs.timeouts.length} roots={st.rs.sliceRoots.length} ev={showEvs st o.events}"

def showResp (st : St) : Option Resp → String
  | none => "panic"
  | some (.nack r) => s!"nack {showReq st r}"
  | some (.lastRoot r l root π) =>
    let h := match r with | .last b => b.hash | .root b _ => b.hash | .shred b _ _ => b.hash
    s!"last {showReq st r} {l} {root} len={π.length} ok={b01 (checkProofLast root l h π)}"
  | some (.sliceRoot r root π) =>
    let (h, i) := match r with | .root b i => (b.hash, i) | .last b => (b.hash, 0) | .shred b _ _ => (b.hash, 0)
    s!"root {showReq st r} {root} len={π.length} ok={b01 (checkProof root i h π)}"
  | some (.shred r _ s _) => s!"shred {showReq st r} {s.slice} {b01 s.isLast} {s.root} {s.idx} {s.sz} {b01 s.ty}"

def cap : Nat := MAX_SLICES

def step (st : St) (ws : List String) : St × List String :=
  match ws with
  | "case" :: k :: _ => ({}, [s!"case {k}"])
  | ["root", r, "bad"] => ({ st with env := (nat! r, .bad) :: st.env }, ["ok"])
  | ["root", r, "ok", p, t] => ({ st with env := (nat! r, .ok (parseP p) (parseT t)) :: st.env }, ["ok"])
  | ["hash", h, "junk"] => ({ st with hashes := st.hashes ++ [(nat! h, .junk (nat! h + 1))] }, ["ok"])
  | "hash" :: h :: roots =>
    ({ st with hashes := st.hashes ++ [(nat! h, (Tree.new (nats roots)).root)], trees := st.trees ++ [(nat! h, nats roots)] }, ["ok"])
  | ["dis", slot, sl, il, r, i, sz, ty] =>
    let (sd, res, evs) := addDissem (envFn st.env) (storeGet cap st.store (nat! slot)) ⟨nat! sl, bool! il, nat! r, nat! i, nat! sz, bool! ty⟩
    ({ st with store := storeSet st.store (nat! slot) sd }, [s!"{showRes st res} | {showEvs st evs}"])
  | ["repair", r] =>
    match parseReq st r with
    | .last b =>
      let (rs, o) := repairBlock cap st.rs st.store b
      let st := { st with rs }
      (st, [stepLine st o])
    | _ => (st, ["bad-op"])
  | ["timeout"] =>
    let (rs, o) := fireTimeout st.rs
    let st := { st with rs }
    (st, [stepLine st o])
  | "resp" :: kind :: r :: rest =>
    let req := parseReq st r
    let resp : Option Resp := match kind, rest with
      | "nack", [] => some (.nack req)
      | "last", [l, rid, pr] => some (.lastRoot req (nat! l) (nat! rid) (parseProof st pr))
      | "root", [rid, pr] => some (.sliceRoot req (nat! rid) (parseProof st pr))
      | "shred", [slot, sl, il, rid, i, sz, ty, sig] =>
        some (.shred req (nat! slot) ⟨nat! sl, bool! il, nat! rid, nat! i, nat! sz, bool! ty⟩ (bool! sig))
      | _, _ => none
    match resp with
    | none => (st, ["bad-op"])
    | some resp =>
      let (rs, store, o) := handleResponse (envFn st.env) cap st.rs st.store resp
      let st := { st with rs, store }
      (st, [stepLine st o])
  | ["ask", r] =>
    let req := parseReq st r
    let slot := match req with | .last b => b.slot | .root b _ => b.slot | .shred b _ _ => b.slot
    (st, [showResp st (answer (storeGet cap st.store slot) req)])
  | ["q", "blk", slot, h] =>
    (st, [match getBlock (storeGet cap st.store (nat! slot)) (hashOf st (nat! h)) with
          | some b => s!"{hidOf st b.hash} {showP b.parent} {b.txs.length} {checksum b.txs}"
          | none => "-"])
  | _ => (st, ["bad-op"])

def main : IO Unit := runDriver ({} : St) step
