import AgModel.Drv.TrackCore
/-! Driver for C07 (see `Driver/TrackCore.lean`). -/
def main : IO Unit := Driver.runDriver ({} : TrackCore.St) TrackCore.step
