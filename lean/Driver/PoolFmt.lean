import Driver.Util
import AgModel.Model.Pool
/-! Canonical text formats of pool model values, shared by the pool driver (C03/C04/C06/C18) and the cluster driver (C01/C02). -/
open AgModel.Pool Driver

namespace Driver.PoolFmt

def fmtList (l : List Nat) : String :=
  if l.isEmpty then "-" else ",".intercalate (l.map toString)

def parseList (s : String) : List Nat :=
  if s == "-" then [] else (s.splitOn ",").map nat!

def certKindName : CertKind → String
  | .notar => "notar" | .nf => "nf" | .skip => "skip" | .ff => "ff" | .final => "final"
def voteKindName : VoteKind → String
  | .notar => "notar" | .nf => "nf" | .skip => "skip" | .sf => "sf" | .final => "final"

def parseCertKind : String → CertKind
  | "notar" => .notar | "nf" => .nf | "skip" => .skip | "ff" => .ff | _ => .final
def parseVoteKind : String → VoteKind
  | "notar" => .notar | "nf" => .nf | "skip" => .skip | "sf" => .sf | _ => .final

def fmtCert (c : Cert) : String :=
  s!"cert {certKindName c.kind} {c.slot} {c.hash} {fmtList c.sig1} {fmtList c.sig2} {c.stake}"
def fmtVote (v : Vote) : String :=
  s!"vote {voteKindName v.kind} {v.slot} {v.hash} {v.signer}"

def sortStrs (l : List String) : List String := l.mergeSort (fun a b => !(b < a))

def fmtEvent : Event → String
  | .cert c => fmtCert c
  | .s2n s h => s!"s2n {s} {h}"
  | .s2s s => s!"s2s {s}"
  | .repair s h => s!"repair {s} {h}"
  | .parentReady s ps ph => s!"pr {s} {ps} {ph}"
  | .standstill s cs vs =>
    s!"standstill {s} [{" / ".intercalate (sortStrs (cs.map fmtCert))}] [{" / ".intercalate (sortStrs (vs.map fmtVote))}]"
  | .panic => "panic"

def fmtVerdict : Verdict → String
  | .ok => "ok" | .oob => "oob" | .dup => "dup" | .panic => "panic"
  | .slash .notarDifferentHash => "slash notarDifferentHash"
  | .slash .skipAndNotarize => "slash skipAndNotarize"
  | .slash .skipAndFinalize => "slash skipAndFinalize"
  | .slash .nfAndFinalize => "slash nfAndFinalize"

def isRepair : Event → Bool
  | .repair _ _ => true
  | _ => false

/-- votor events in emission order, then the repair requests (separate channel) sorted -/
def out (v : Verdict) (evs : List Event) : String :=
  if evs.contains .panic then "panic | "
  else
    let main := (evs.filter (fun e => !isRepair e)).map fmtEvent
    let reps := sortStrs ((evs.filter isRepair).map fmtEvent)
    s!"{fmtVerdict v} | {" ; ".intercalate (main ++ reps)}"


end Driver.PoolFmt
