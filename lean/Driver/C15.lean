import Driver.Util
import AgModel.Model.Merkle
/-! Driver for C15: executes the ops of `harness/src/bin/c15.rs` on `AgModel.Merkle`. -/
open AgModel.Merkle Driver

structure St where
  trees : Array (Tree × List Nat) := #[]
  proofs : Array (List H) := #[]

def resolve (st : St) : List String → H × List String
  | "R" :: t :: rest => ((st.trees.getD (nat! t) (⟨[]⟩, [])).1.root, rest)
  | "Q" :: t :: i :: l :: rest =>
    ((((st.trees.getD (nat! t) (⟨[]⟩, [])).1.createProof (nat! i)).getD (nat! l) (.junk 0)), rest)
  | "Z" :: k :: rest => (.junk (nat! k + 1), rest)
  | "E" :: k :: rest => (emptyRoot (nat! k), rest)
  | "D" :: d :: i :: p :: rest => (deriveRoot (.leaf (nat! d)) (nat! i) (st.proofs.getD (nat! p) []), rest)
  | rest => (.junk 0, rest)

def setAt (l : List H) (j : Nat) (x : H) : List H := l.set j x

def step (st : St) (ws : List String) : St × List String :=
  match ws with
  | "case" :: k :: _ => ({}, [s!"case {k}"])
  | "tree" :: _ :: ds =>
    let leaves := nats ds
    let t := Tree.new leaves
    ({ st with trees := st.trees.push (t, leaves) }, [s!"h {t.height}"])
  | ["proof", _, t, i] =>
    let p := (st.trees.getD (nat! t) (⟨[]⟩, [])).1.createProof (nat! i)
    ({ st with proofs := st.proofs.push p }, [s!"len {p.length}"])
  | ["copy", _, p] =>
    let q := st.proofs.getD (nat! p) []
    ({ st with proofs := st.proofs.push q }, [s!"len {q.length}"])
  | "set" :: p :: j :: r =>
    let (x, _) := resolve st r
    let q := setAt (st.proofs.getD (nat! p) []) (nat! j) x
    ({ st with proofs := st.proofs.setIfInBounds (nat! p) q }, [s!"len {q.length}"])
  | "push" :: p :: r =>
    let (x, _) := resolve st r
    let q := st.proofs.getD (nat! p) [] ++ [x]
    ({ st with proofs := st.proofs.setIfInBounds (nat! p) q }, [s!"len {q.length}"])
  | ["trunc", p, n] =>
    let q := (st.proofs.getD (nat! p) []).take (nat! n)
    ({ st with proofs := st.proofs.setIfInBounds (nat! p) q }, [s!"len {q.length}"])
  | ["drop", p, k] =>
    let q := (st.proofs.getD (nat! p) []).drop (nat! k)
    ({ st with proofs := st.proofs.setIfInBounds (nat! p) q }, [s!"len {q.length}"])
  | "check" :: d :: i :: r =>
    let (root, rest) := resolve st r
    let p := st.proofs.getD (nat! (rest.headD "0")) []
    (st, [toString (checkProof (nat! d) (nat! i) root p)])
  | "last" :: d :: i :: r =>
    let (root, rest) := resolve st r
    let p := st.proofs.getD (nat! (rest.headD "0")) []
    (st, [toString (checkProofLast (nat! d) (nat! i) root p)])
  | _ => (st, ["bad-op"])

def main : IO Unit := runDriver ({} : St) step
