import Driver.Util
import AgModel.Model.Sampler
/-! Driver for C17: executes the ops of `harness/src/bin/c17.rs` on `AgModel.Sampler`.

ops (one output line each):
  stakes s0 … s(n-1)        set the stake vector                                -> `n <n> total <T>`
  fa1 k                     FA1 pre-processing (both fallbacks)                  -> `fa1 kprime <k'> req …` | `panic`
  fa1p k                    `new_with_partition_fallback`: fa1 + partition of the
                            fallback weights (validator order) into k' bins      -> `ok` | `panic`
  part w bins o1 o2 …       partition (w = `s`: current stakes, `f`: FA1 fallback weights of the last fa1)
                            in the observed order                                -> `ord <b> bins id:st,…|…` | `ord <b> panic`
  constructible w bins      partition (validator order) does not panic           -> `constructible <b>`
  fa2 k                     FA2 constructor                                      -> `ok req … medium …` | `panic`
  drawp k / drawq …         see below: committees observed on the real code      -> `valid <b> floor <b>`
-/
open AgModel.Sampler Driver

structure St where
  stakes : List Nat := []
  k : Nat := 0
  fa : Option Fa1 := none
  order : List Nat := []

def showList (tag : String) (l : List Nat) : String :=
  l.foldl (fun s x => s ++ " " ++ toString x) tag

def showBins (bins : List (List (Nat × Nat))) : String :=
  "|".intercalate (bins.map (fun b => ",".intercalate (b.map (fun e => s!"{e.1}:{e.2}"))))

def weightsOf (st : St) (w : String) : List Nat :=
  if w == "f" then (st.fa.map (·.weights)).getD [] else st.stakes

/-- the validators of non-zero weight in validator order (an order satisfying `orderOk`; whether the
    constructor panics does not depend on the order: `Props.C17.partition_total`). -/
def canonOrder (w : List Nat) : List Nat := (List.range w.length).filter (fun v => w.getD v 0 != 0)

def step (st : St) (ws : List String) : St × List String :=
  match ws with
  | "case" :: k :: _ => ({}, [s!"case {k}"])
  | "stakes" :: ss =>
    let s := nats ss
    ({ st with stakes := s, fa := none }, [s!"n {s.length} total {total s}"])
  | ["fa1", k] =>
    let k := nat! k
    match fa1 st.stakes k with
    | none => ({ st with k := k, fa := none }, ["panic"])
    | some f => ({ st with k := k, fa := some f }, [showList s!"fa1 kprime {f.kPrime} req" f.req])
  | ["fa1p", k] =>
    match fa1 st.stakes (nat! k) with
    | none => (st, ["panic"])
    | some f => (st, [if (partition f.weights (canonOrder f.weights) f.kPrime).isSome then "ok" else "panic"])
  | "part" :: w :: bins :: os =>
    let order := nats os
    let wts := weightsOf st w
    let ok := orderOk wts order
    match partition wts order (nat! bins) with
    | none => ({ st with order := order }, [s!"ord {ok} panic"])
    | some b => ({ st with order := order }, [s!"ord {ok} bins {showBins b}"])
  | ["constructible", w, bins] =>
    let wts := weightsOf st w
    (st, [s!"constructible {(partition wts (canonOrder wts) (nat! bins)).isSome}"])
  | ["fa2", k] =>
    match fa2 st.stakes (nat! k) with
    | none => ({ st with k := nat! k }, ["panic"])
    | some (req, med) => ({ st with k := nat! k }, [showList (showList "ok req" req ++ " medium") med])
  -- committees: the first word selects the strategy; `st.k`, `st.stakes`, `st.order` from before
  | "draw" :: "fa1p" :: cs =>
    let c := nats cs
    (st, [s!"valid {fa1pValid st.stakes st.k st.order c} floor {floorGuarantee st.stakes st.k c}"])
  | "draw" :: "fa1w" :: cs =>
    let c := nats cs
    (st, [s!"valid {fa1wValid st.stakes st.k c} floor {floorGuarantee st.stakes st.k c}"])
  | "draw" :: "fa2" :: cs =>
    let c := nats cs
    (st, [s!"valid {fa2Valid st.stakes st.k c} floor {floorGuarantee st.stakes st.k c}"])
  | "draw" :: "part" :: bins :: cs =>
    let c := nats cs
    let v := match partition st.stakes st.order (nat! bins) with
      | none => false
      | some b => binsValid b c
    (st, [s!"valid {v}"])
  | "draw" :: "iid" :: k :: cs => (st, [s!"valid {iidValid st.stakes (nat! k) (nats cs)}"])
  | "draw" :: "uniform" :: k :: cs => (st, [s!"valid {uniformValid st.stakes.length (nat! k) (nats cs)}"])
  | "draw" :: "decay" :: num :: den :: k :: cs =>
    (st, [s!"valid {decayValid st.stakes (nat! num) (nat! den) (nat! k) (nats cs)} cap {capOf (nat! num) (nat! den)}"])
  | _ => (st, ["bad-op"])

def main : IO Unit := runDriver ({} : St) step
