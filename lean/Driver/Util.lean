/-! Line-protocol helpers shared by all drivers (import-free). -/
namespace Driver

def words (line : String) : List String :=
  (line.trimAscii.toString.splitOn " ").filter (· ≠ "")

def nat! (s : String) : Nat := s.toNat?.getD 0

def nats (ws : List String) : List Nat := ws.map nat!

/-- Reads stdin line by line, threading a state; `step` returns the new state and output lines. -/
partial def loop {σ : Type} (h : IO.FS.Stream) (out : IO.FS.Stream) (st : σ)
    (step : σ → List String → σ × List String) : IO σ := do
  let line ← h.getLine
  if line.isEmpty then return st
  let ws := words line
  if ws.isEmpty then loop h out st step
  else
    let (st', outs) := step st ws
    for o in outs do out.putStrLn o
    loop h out st' step

def runDriver {σ : Type} (init : σ) (step : σ → List String → σ × List String) : IO Unit := do
  let stdin ← IO.getStdin
  let stdout ← IO.getStdout
  let _ ← loop stdin stdout init step
  stdout.flush

end Driver
