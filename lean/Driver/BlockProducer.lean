import Driver.Util
import AgModel.Model.BlockProducer
import AgModel.Model.ProducerLoop
/-! Driver `drv_bp`: replays the op lines of `harness/src/bin/bp.rs` on `AgModel.BlockProducer`.

    case <k> <tag>                                   -> case <k>
    plan ...                                         -> ok
    begin <ready|notready> <slot> <pslot> <phash> <eq> <maxid>   -> ok
    slice <k> dl <0|1> zl <0|1> pr <-|pslot phash> rx <len>*     -> slice <k> last <b> parent <-|slot hash> ntx <n> data <n> enc <n> ids <h>
                                                                   | none <status>
    end                                              -> block done slices <n> parent <slot> <hash> hash <id> txs <n>
                                                      | block <status> slices <n>
    win <me> <nval> <w> <eq> al <-|s h> pf <-|s h> pv <-|h> fin <0|1>   -> ok      (window inputs; leader(slot) = slot / W % nval)
    wend                                             -> window <verdict> <n> [<slot> <hash> <pslot> <phash>]*
                                                        (`Loop.produceWindow` on the window inputs and the `slice` inputs / `end` hashes since `win`)
    (anything else)                                  -> ok
-/
open AgModel.BlockProducer Driver

structure St where
  cfg : Cfg := ⟨.ready, 0, (0, 0), false⟩
  ps : PState := ⟨0, true, [], (0, 0), .blocked⟩
  nextTx : Nat := 0
  nextHash : Nat := 1
  nextRoot : Nat := 1
  nslices : Nat := 0
  ntxs : Nat := 0
  /-- window replay: (me, nval, w, eq, first-slot inputs) -/
  win : Option (Nat × Nat × Nat × Bool × FirstSlotIn) := none
  curIns : List SliceIn := []
  wblocks : List Loop.BlockIn := []

def b01 (b : Bool) : String := if b then "1" else "0"
def idsHash (txs : List Tx) : Nat := txs.foldl (fun h t => (h * 31 + t.id + 1) % 1000000007) 7
def statusStr : Status → String
  | .running => "running" | .done => "done" | .blocked => "blocked" | .panicked => "panic"

def optPair : List String → Option (Nat × Nat) × List String
  | "-" :: r => (none, r)
  | a :: b :: r => (some (nat! a, nat! b), r)
  | r => (none, r)
def verdictStr : Loop.Verdict → String
  | .notLeader => "notleader" | .skip => "skip" | .waiting => "waiting" | .stuck => "stuck" | .complete => "complete"

def bpStep (st : St) (ws : List String) : St × List String :=
  match ws with
  | "case" :: k :: _ => ({}, [s!"case {k}"])
  | ["begin", mode, slot, pslot, phash, eq, maxid] =>
    let c : Cfg := ⟨if mode == "ready" then .ready else .notReady, nat! slot, (nat! pslot, nat! phash), eq == "1"⟩
    ({ st with cfg := c, ps := init c, nextTx := 0, nextHash := nat! maxid + 1, nslices := 0, ntxs := 0, curIns := [] }, ["ok"])
  | "win" :: me :: n :: w :: eq :: "al" :: rest =>
    let (al, rest) := optPair rest
    let (pf, rest) := optPair (rest.drop 1)
    let (pv, fin) : Option Nat × Bool := match rest.drop 1 with
      | "-" :: _ :: f :: _ => (none, f == "1")
      | h :: _ :: f :: _ => (some (nat! h), f == "1")
      | _ => (none, false)
    ({ st with win := some (nat! me, nat! n, nat! w, eq == "1", ⟨false, al, pf, pv, fin⟩), curIns := [], wblocks := [] }, ["ok"])
  | ["wend"] =>
    match st.win with
    | none => (st, ["window none"])
    | some (me, n, w, eq, fi) =>
      let r := Loop.produceWindow (fun slot => slot / Loop.W % n) me w ⟨fi, eq, st.wblocks⟩
      let bl := r.blocks.map (fun b => s!" {b.slot} {b.hash} {b.parent.1} {b.parent.2}")
      ({ st with win := none, wblocks := [], curIns := [] }, [s!"window {verdictStr r.verdict} {r.blocks.length}{String.join bl}"])
  | "slice" :: _k :: "dl" :: dl :: "zl" :: zl :: "pr" :: rest =>
    let (pr, rest) : Option (Nat × Nat) × List String := match rest with
      | "-" :: r => (none, r)
      | a :: b :: r => (some (nat! a, nat! b), r)
      | r => (none, r)
    let lens := nats (rest.drop 1)
    let txs : List Tx := (List.range lens.length).zipWith (fun i l => ⟨st.nextTx + i, l⟩) lens
    let si : SliceIn := ⟨txs, dl == "1", zl == "1", pr⟩
    let (ps', outs) := step st.cfg st.ps si
    let st := { st with ps := ps', nextTx := st.nextTx + lens.length, curIns := st.curIns ++ [si] }
    match outs with
    | o :: _ =>
      let par := match o.payload.parent with | some p => s!"{p.1} {p.2}" | none => "-"
      ({ st with nextRoot := st.nextRoot + 1, nslices := st.nslices + 1, ntxs := st.ntxs + o.payload.txs.length },
       [s!"slice {o.index} last {b01 o.isLast} parent {par} ntx {o.payload.count} data {o.payload.dataLen} enc {o.payload.encLen} ids {idsHash o.payload.txs}"])
    | [] => (st, [s!"none {statusStr ps'.status}"])
  | ["end"] =>
    let done := st.ps.status == .done
    let h := if done then toString st.nextHash else "-"
    ({ st with nextHash := if done then st.nextHash + 1 else st.nextHash,
               wblocks := st.wblocks ++ [⟨st.curIns, if done then st.nextHash else 0⟩], curIns := [] },
     [if done then s!"block done slices {st.nslices} parent {st.ps.parent.1} {st.ps.parent.2} hash {h} txs {st.ntxs}"
      else s!"block {statusStr st.ps.status} slices {st.nslices}"])
  | _ => (st, ["ok"])

def main : IO Unit := runDriver ({} : St) bpStep
