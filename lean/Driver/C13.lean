import Driver.Util
import AgModel.Model.Blockstore
/-! Driver for C13: executes the ops of `harness/src/bin/c13.rs` on `AgModel.Blockstore`.

ops (one output line each):
  init <slot>                          fresh `SlotData` (cap = MAX_SLICES_PER_BLOCK)          -> ok
  root <rid> bad | root <rid> ok <P> <T>   declare what slice root rid decodes to            -> ok
        P = `-` | `<pslot>:<phash>`     T = `x` (undecodable) | `e` (no txs) | `id,id,...`
  hash <hid> junk | hash <hid> r1 r2 ..    declare block-hash id (double-Merkle root of roots)  -> ok
  dis <slice> <isLast> <root> <idx> <sz> <ty>          add_shred_from_dissemination
  rep <hid> <slice> <isLast> <root> <idx> <sz> <ty>    add_shred_from_repair
  own <slice> <isLast> <root> <sz> <P> <T>             add_own_slice
        -> `<result> | <events sent to votor>`
  q dh | q blk <hid> | q last <hid> | q root <hid> <slice> | q shred <hid> <slice> <idx>
  q cc <slice> | q proof <hid> <slice>
-/
open AgModel.Blockstore AgModel.Merkle Driver

structure St where
  env : List (Nat × Content) := []
  hashes : List (Nat × H) := []
  sd : SlotData := SlotData.new MAX_SLICES 1

def envFn (env : List (Nat × Content)) (r : Nat) : Content :=
  match env.find? (·.1 == r) with
  | some (_, c) => c
  | none => .bad

def hashOf (st : St) (hid : Nat) : H :=
  match st.hashes.find? (·.1 == hid) with
  | some (_, h) => h
  | none => .junk 0

def hidOf (st : St) (h : H) : String :=
  match st.hashes.find? (fun kv => decide (kv.2 = h)) with
  | some (k, _) => toString k
  | none => "h?"

def parseP (s : String) : Option (Nat × Nat) :=
  if s == "-" then none
  else match s.splitOn ":" with
    | [a, b] => some (nat! a, nat! b)
    | _ => none

def parseT (s : String) : Option (List Nat) :=
  if s == "x" then none
  else if s == "e" then some []
  else some ((s.splitOn ",").map nat!)

def bool! (s : String) : Bool := s == "1"

def showP (p : Nat × Nat) : String := s!"{p.1}:{p.2}"

def checksum (txs : List Nat) : Nat := txs.foldl (fun c t => (c * 31 + t + 1) % 1000000007) 7

def showInfo (st : St) (i : BlockInfo) : String := s!"{hidOf st i.hash} {showP i.parent}"

def showEvent (st : St) : Event → String
  | .firstShred => "first"
  | .block i => s!"block {showInfo st i}"
  | .invalidBlock => "invalid"

def showRes (st : St) : AddRes → String
  | .none => "none"
  | .ev .firstShred => "none"   -- the trait method returns `Ok(None)`; the event goes to Votor
  | .ev e => showEvent st e
  | .err .wrongType => "wrongtype"
  | .err .duplicate => "dup"
  | .err .equivocation => "equiv"
  | .err .invalidShred => "invalidshred"
  | .panic => "panic"

def showEvs (st : St) (evs : List Event) : String := " ".intercalate (evs.map fun e => "[" ++ showEvent st e ++ "]")

def b01 (b : Bool) : String := if b then "1" else "0"

def step (st : St) (ws : List String) : St × List String :=
  match ws with
  | "case" :: k :: _ => ({}, [s!"case {k}"])
  | ["init", slot] => ({ st with sd := SlotData.new MAX_SLICES (nat! slot) }, ["ok"])
  | ["root", r, "bad"] => ({ st with env := (nat! r, .bad) :: st.env }, ["ok"])
  | ["root", r, "ok", p, t] => ({ st with env := (nat! r, .ok (parseP p) (parseT t)) :: st.env }, ["ok"])
  | ["hash", h, "junk"] => ({ st with hashes := st.hashes ++ [(nat! h, .junk (nat! h + 1))] }, ["ok"])
  | "hash" :: h :: roots => ({ st with hashes := st.hashes ++ [(nat! h, (Tree.new (nats roots)).root)] }, ["ok"])
  | ["dis", sl, il, r, i, sz, ty] =>
    let (sd, res, evs) := addDissem (envFn st.env) st.sd ⟨nat! sl, bool! il, nat! r, nat! i, nat! sz, bool! ty⟩
    ({ st with sd }, [s!"{showRes st res} | {showEvs st evs}"])
  | ["rep", h, sl, il, r, i, sz, ty] =>
    let (sd, res, evs) := addRepair (envFn st.env) st.sd (hashOf st (nat! h)) ⟨nat! sl, bool! il, nat! r, nat! i, nat! sz, bool! ty⟩
    ({ st with sd }, [s!"{showRes st res} | {showEvs st evs}"])
  | ["own", sl, il, r, sz, p, t] =>
    let (sd, res, evs) := addOwn st.sd ⟨nat! sl, bool! il, nat! r⟩ (nat! sz) (parseP p) (parseT t)
    let rs := match res with
      | none => "panic"
      | some none => "none"
      | some (some i) => s!"block {showInfo st i}"
    ({ st with sd }, [s!"{rs} | {showEvs st evs}"])
  | ["q", "dh"] => (st, [match disseminatedHash st.sd with | some h => hidOf st h | none => "-"])
  | ["q", "blk", h] =>
    (st, [match getBlock st.sd (hashOf st (nat! h)) with
          | some b => s!"{hidOf st b.hash} {showP b.parent} {b.txs.length} {checksum b.txs}"
          | none => "-"])
  | ["q", "last", h] =>
    (st, [match getLastSliceIndex st.sd (hashOf st (nat! h)) with | some l => toString l | none => "-"])
  | ["q", "root", h, sl] =>
    (st, [match getSliceRoot st.sd (hashOf st (nat! h)) (nat! sl) with | some r => toString r | none => "-"])
  | ["q", "shred", h, sl, i] =>
    (st, [match getShred st.sd (hashOf st (nat! h)) (nat! sl) (nat! i) with
          | some s => s!"{s.slice} {b01 s.isLast} {s.root} {s.idx} {s.sz} {b01 s.ty}"
          | none => "-"])
  | ["q", "cc", sl] =>
    (st, [match cachedCommitment st.sd (nat! sl) with
          | some c => s!"{c.slice} {b01 c.isLast} {c.root}"
          | none => "-"])
  | ["q", "proof", h, sl] =>
    let hh := hashOf st (nat! h)
    (st, [match createProof st.sd hh (nat! sl) with
          | none => "-"
          | some none => "panic"
          | some (some π) =>
            let r := (getSliceRoot st.sd hh (nat! sl)).getD 0
            s!"len {π.length} {b01 (checkProof r (nat! sl) hh π)} {b01 (checkProofLast r (nat! sl) hh π)}"])
  | _ => (st, ["bad-op"])

def main : IO Unit := runDriver ({} : St) step
