import Driver.Util
import AgModel.Model.Trie
import AgModel.Model.LtHash
import AgModel.Model.Exec
/-! Driver for C20: executes the ops of `harness/src/bin/c20.rs` on `AgModel.Trie`, `AgModel.LtHash`
and `AgModel.Exec`. One output line per op line.

    key K <hex64>                      define key id K                         -> ok
    new S | fork T S                   push a fresh state / a clone of S       -> ok
    ins S K v | rem S K                write                                   -> r <old|-> <len> | panic
    get S K                                                                    -> g <v|->
    iter S                                                                     -> it K:v K:v ...
    eq S T                                                                     -> true | false
    shape S                            full structure incl. bitmaps            -> sh <B..[..]>
    hent K v l0 … l1023                lanes of hash_entry(key K, value v)     -> ok
    lnew C | lfork C' C                push identity / a clone of C            -> ok
    lobs C K <old|-> <new|->           observe                                 -> c <checksum>
    ladd C D | lsub C D                C += D / C -= D                         -> c <checksum>
    lrec S                             recompute from the contents of state S  -> c <checksum>
    begin <P|K> slot <hash|-> <ps|-> <ph|->                                    -> ok
    exec  <P|K> slot <hash|-> t1 t2 …                                          -> ok
    end slot hash                                                              -> none | ev <txs> <cid>
    fin slot hash                                                              -> ok
-/
open Driver AgModel

structure St where
  keys : Array Trie.Key := #[]
  states : Array Trie.State := #[]
  hents : List ((Nat × Nat) × LtHash.Lanes) := []
  commits : Array LtHash.Lanes := #[]
  engine : Exec.Engine := {}
  seen : Array Exec.SH := #[]

def hexVal (c : Char) : Nat :=
  if '0' ≤ c ∧ c ≤ '9' then c.toNat - '0'.toNat
  else if 'a' ≤ c ∧ c ≤ 'f' then c.toNat - 'a'.toNat + 10
  else 0

def hexBytes : List Char → List Nat
  | a :: b :: rest => (hexVal a * 16 + hexVal b) :: hexBytes rest
  | _ => []

def kidOf (st : St) (k : Trie.Key) : String :=
  match st.keys.findIdx? (· == k) with
  | some i => toString i
  | none => "?"

def optS (o : Option Nat) : String :=
  match o with
  | some v => toString v
  | none => "-"

def optN (s : String) : Option Nat := if s == "-" then none else some (nat! s)

partial def shapeStr (st : St) : Trie.Node → String
  | .leaf k v => s!"L{kidOf st k}:{v}"
  | n =>
    let cs := (Trie.chainChildren n).map (shapeStr st)
    s!"B{n.bitmap}[{",".intercalate cs}]"

def hent (st : St) (k : Trie.Key) (v : Nat) : LtHash.Lanes :=
  match st.keys.findIdx? (· == k) with
  | some i => ((st.hents.find? (fun e => e.1 == (i, v))).map (·.2)).getD []
  | none => []

def ipb (kind slot hash : String) : Exec.Ipb :=
  if kind == "K" then .known (nat! slot) (nat! hash) else .pending (nat! slot)

def resLine (r : Trie.Res) : String :=
  match r with
  | .ok s old => s!"r {optS old} {s.len}"
  | .panic => "panic"

def step (st : St) (ws : List String) : St × List String :=
  let key (k : String) : Trie.Key := st.keys.getD (nat! k) []
  let state (s : String) : Trie.State := st.states.getD (nat! s) {}
  let commit (c : String) : LtHash.Lanes := st.commits.getD (nat! c) []
  match ws with
  | "case" :: k :: _ => ({}, [s!"case {k}"])
  | ["key", _, hex] => ({ st with keys := st.keys.push (hexBytes hex.toList) }, ["ok"])
  | ["new", _] => ({ st with states := st.states.push {} }, ["ok"])
  | ["fork", _, s] => ({ st with states := st.states.push (state s) }, ["ok"])
  | ["ins", s, k, v] =>
    let r := (state s).insert (key k) (nat! v)
    let st' := match r with
      | .ok s' _ => { st with states := st.states.setIfInBounds (nat! s) s' }
      | .panic => st
    (st', [resLine r])
  | ["rem", s, k] =>
    let r := (state s).remove (key k)
    let st' := match r with
      | .ok s' _ => { st with states := st.states.setIfInBounds (nat! s) s' }
      | .panic => st
    (st', [resLine r])
  | ["get", s, k] => (st, [s!"g {optS ((state s).get (key k))}"])
  | ["iter", s] =>
    let items := (Trie.iterStack (Trie.size (state s).root) [(state s).root]).map (fun kv => s!"{kidOf st kv.1}:{kv.2}")
    (st, [" ".intercalate ("it" :: items)])
  | ["eq", s, t] => (st, [toString (decide (state s = state t))])
  | ["shape", s] => (st, [s!"sh {shapeStr st (state s).root}"])
  | "hent" :: k :: v :: lanes => ({ st with hents := ((nat! k, nat! v), nats lanes) :: st.hents }, ["ok"])
  | ["lnew", _] => ({ st with commits := st.commits.push LtHash.identity }, ["ok"])
  | ["lfork", _, c] => ({ st with commits := st.commits.push (commit c) }, ["ok"])
  | ["lobs", c, k, old, new] =>
    let h (o : Option Nat) : Option LtHash.Lanes := o.map (fun v => hent st (key k) v)
    let a := LtHash.observe (commit c) (h (optN old)) (h (optN new))
    ({ st with commits := st.commits.setIfInBounds (nat! c) a }, [s!"c {LtHash.checksum a}"])
  | ["ladd", c, d] =>
    let a := LtHash.addL (commit c) (commit d)
    ({ st with commits := st.commits.setIfInBounds (nat! c) a }, [s!"c {LtHash.checksum a}"])
  | ["lsub", c, d] =>
    let a := LtHash.subL (commit c) (commit d)
    ({ st with commits := st.commits.setIfInBounds (nat! c) a }, [s!"c {LtHash.checksum a}"])
  | ["lrec", s] =>
    (st, [s!"c {LtHash.checksum (LtHash.commitOf (hent st) (state s).iter)}"])
  | ["begin", kind, slot, hash, ps, ph] =>
    let parent : Option Exec.BlockId := if ps == "-" then none else some (nat! ps, nat! ph)
    ({ st with engine := Exec.begin st.engine (ipb kind slot hash) parent }, ["ok"])
  | "exec" :: kind :: slot :: hash :: txs =>
    ({ st with engine := Exec.exec st.engine (ipb kind slot hash) (nats txs) }, ["ok"])
  | ["end", slot, hash] =>
    let (e, ev) := Exec.endBlock st.engine (nat! slot, nat! hash)
    match ev with
    | none => ({ st with engine := e }, ["none"])
    | some (n, h) =>
      match st.seen.findIdx? (· == h) with
      | some i => ({ st with engine := e }, [s!"ev {n} {i}"])
      | none => ({ st with engine := e, seen := st.seen.push h }, [s!"ev {n} {st.seen.size}"])
  | ["fin", slot, hash] => ({ st with engine := Exec.finalize st.engine (nat! slot, nat! hash) }, ["ok"])
  | _ => (st, ["bad-op"])

def main : IO Unit := runDriver ({} : St) step
