import Driver.Util
import AgModel.Model.Wire
/-! Driver for C19: executes the ops of `harness/src/bin/c19.rs` on `AgModel.Wire`.

ops (one output line each):
  dec <T> <hex>      decode the byte string exactly as message type T and re-encode
                     -> `err` | `ok <len> <fnv1a64 of the re-encoding>[ <decoded fields>]`
                     (cm: `v <slot> <signer>` / `c <slot> <declared stake>`; sh: `i <index in slot>`)
T := cm (ConsensusMessage) | tx (Transaction) | rq (RepairRequest) | rs (RepairResponse) | sh (Shred)
The crypto point decoders are instantiated with "always valid": the harness only emits byte strings
whose verdict does not depend on them. -/
open AgModel.Wire Driver

def nib (c : Char) : Nat :=
  if '0' ≤ c ∧ c ≤ '9' then c.toNat - '0'.toNat
  else if 'a' ≤ c ∧ c ≤ 'f' then c.toNat - 'a'.toNat + 10
  else 0

def unhex : List Char → List Nat
  | a :: b :: r => (nib a * 16 + nib b) :: unhex r
  | _ => []

def fnv64 (bs : List Nat) : Nat :=
  bs.foldl (fun h b => ((h.xor b) * 0x100000001b3) % 2 ^ 64) 0xcbf29ce484222325

def anyOk : CryptoOk := ⟨fun _ => true, fun _ => true⟩

/-- a few decoded field values, printed after the re-encoding digest -/
def digCm : ConsensusMsg → String
  | .vote (.notar s _ _ i) | .vote (.notarFallback s _ _ i) | .vote (.skip s _ i) | .vote (.skipFallback s _ i)
  | .vote (.final s _ i) => s!" v {s} {i}"
  | .cert (.notar s _ _ st) | .cert (.notarFallback s _ _ _ st) | .cert (.skip s _ _ st) | .cert (.fastFinal s _ _ st)
  | .cert (.final s _ st) => s!" c {s} {st}"

def digSh (s : ShredW) : String := s!" i {s.sliceIndex * AgModel.Gen.TOTAL_SHREDS + s.shredIndex}"

def reencD {α : Type} (c : Codec α) (dig : α → String) (bs : List Nat) : String :=
  match decodeExact c bs with
  | none => "err"
  | some a => let e := c.enc a; s!"ok {e.length} {fnv64 e}{dig a}"

def reenc {α : Type} (c : Codec α) (bs : List Nat) : String := reencD c (fun _ => "") bs

def step (st : Unit) (ws : List String) : Unit × List String :=
  match ws with
  | "case" :: k :: _ => (st, [s!"case {k}"])
  | ["dec", t, hx] =>
    let bs := unhex hx.toList
    let out := match t with
      | "cm" => reencD (consensusMsg anyOk) digCm bs
      | "tx" => reenc transaction bs
      | "rq" => reenc repairRequest bs
      | "rs" => reenc repairResponse bs
      | "sh" => reencD shred digSh bs
      | _ => "bad-type"
    (st, [out])
  | ["dec", t] =>
    -- the empty byte string
    let out := match t with
      | "cm" => reencD (consensusMsg anyOk) digCm []
      | "tx" => reenc transaction []
      | "rq" => reenc repairRequest []
      | "rs" => reenc repairResponse []
      | "sh" => reencD shred digSh []
      | _ => "bad-type"
    (st, [out])
  | _ => (st, ["bad-op"])

def main : IO Unit := runDriver () step
