import Driver.Util
import AgModel.Exec.ShredEnv
/-! Driver for C11: executes the ops of `harness/src/bin/c11.rs` on `AgModel.Shred` with the toy `Env`
    of `AgModel/Exec/ShredEnv.lean` (see there for what is and is not comparable with the real crates).

    ops
      slice slot idx last hasParent pslot hseed len a b tail…   -> `plen <n> fp <fnv>`
      shred <r|c|p|a> keyseed [o]                                -> `ok sb <n> nd <n> nc <n> dfp <fnv|->` | `err TooMuchData` | `panic`
      deshred <r|c|p|a> <mask: 64 × 0/1> edits…                  -> `ok hdr s i l par <fnv|-> data <fnv> len <n> eq <n>` | `err <Kind> same <0|1>` | `panic`
        edits: `f i` flip the data/coding tag of entry i; `m i j` store entry i (also) at position j
-/
open AgModel.Shred AgModel.Merkle Driver AgModel.Exec.ShredEnv

structure St where
  slice : Slice := ⟨default, none, []⟩
  out : List VShred := []

def applyEdits : List (Option VShred) → List String → List (Option VShred)
  | arr, "f" :: i :: rest =>
    let i := nat! i
    let arr := match arr.getD i none with
      | some s => arr.set i (some { s with shred := { s.shred with isData := !s.shred.isData } })
      | none => arr
    applyEdits arr rest
  | arr, "m" :: i :: j :: rest => applyEdits (arr.set (nat! j) (arr.getD (nat! i) none)) rest
  | arr, _ => arr

def step (st : St) (ws : List String) : St × List String :=
  match ws with
  | "case" :: k :: _ => ({}, [s!"case {k}"])
  | "slice" :: slot :: idx :: last :: hasP :: pslot :: hseed :: len :: a :: b :: tail =>
    let sl := mkSlice (nat! slot) (nat! idx) (nat! last) (nat! hasP) (nat! pslot) (nat! hseed) (nat! len) (nat! a) (nat! b) (nats tail)
    let pb := payloadBytes sl.parent sl.data
    ({ st with slice := sl, out := [] }, [s!"plen {pb.length} fp {fnv pb}"])
  | "shred" :: v :: keyseed :: _ =>
    let v := variantOf v
    match shred toyEnv v st.slice 1 (keyOf (nat! keyseed)) with
    | .ok out =>
      let sb := (out.head?.map (·.shred.data.length)).getD 0
      let nd := (out.filter (·.shred.isData)).length
      let dfp := if v == .regular then toString (fnv ((out.take nd).map (·.shred.data)).flatten) else "-"
      ({ st with out := out }, [s!"ok sb {sb} nd {nd} nc {out.length - nd} dfp {dfp}"])
    | .err e => ({ st with out := [] }, [s!"err {errName e}"])
    | .panic => ({ st with out := [] }, ["panic"])
  | "deshred" :: v :: mask :: edits =>
    let v := variantOf v
    let bits := mask.toList
    let arr : List (Option VShred) := (List.range 64).map fun i =>
      if bits.getD i '0' == '1' then st.out[i]? else none
    let arr := applyEdits arr edits
    match deshred toyEnv v arr with
    | .ok (rs, out) =>
      let eq := ((List.range 64).filter fun i => out.getD i none == st.out[i]? && (out.getD i none).isSome).length
      let par := match rs.slice.parent with
        | none => "-"
        | some (s, h) => toString (fnv (s :: h))
      (st, [s!"ok hdr {rs.slice.header.slot} {rs.slice.header.sliceIdx} {if rs.slice.header.isLast then 1 else 0} par {par} data {fnv rs.slice.data} len {rs.slice.data.length} eq {eq}"])
    | .err e => (st, [s!"err {errName e} same 1"])
    | .panic => (st, ["panic"])
  | _ => (st, ["bad-op"])

def main : IO Unit := runDriver ({} : St) step
