import Driver.Util
import AgModel.Model.Votor
/-! Driver for C05: executes the ops of `harness/src/bin/c05.rs` on `AgModel.Votor`.

ops (one output line each):
  pr s ps ph | s2n s h | s2s s | cert <n|nf|s|ff|f> s h | ss s id.. | fs s | ib s |
  blk s h ps ph | to s | tc s
output: `<broadcasts and timers of the step> | h<hfcs> | <changed slot states>` (or `... | panic`). -/
open AgModel.Votor Driver

def kindStr : CertKind → String
  | .notar => "n" | .notarFallback => "nf" | .skip => "s" | .fastFinal => "ff" | .final => "f"

def kindOf : String → CertKind
  | "n" => .notar | "nf" => .notarFallback | "s" => .skip | "ff" => .fastFinal | _ => .final

def outStr : Out → String
  | .notar s h _ _ => s!"N{s}:{h}"
  | .skip s => s!"S{s}"
  | .final s => s!"F{s}"
  | .notarFallback s h => s!"NF{s}:{h}"
  | .skipFallback s => s!"SF{s}"
  | .cert k s h => s!"C{kindStr k}{s}:{h}"
  | .relay i => s!"R{i}"
  | .timer s => s!"T{s}"

def isTimer : Out → Bool | .timer _ => true | _ => false

def optStr : Option Nat → String | some h => toString h | none => "-"
def bStr (b : Bool) : String := if b then "1" else "0"

def insSorted (p : Nat × Nat) : List (Nat × Nat) → List (Nat × Nat)
  | [] => [p]
  | q :: t => if p.1 < q.1 || (p.1 == q.1 && p.2 ≤ q.2) then p :: q :: t else q :: insSorted p t

def sortPairs (l : List (Nat × Nat)) : List (Nat × Nat) := l.foldr insSorted []

def stStr (s : Nat) (st : SlotState) : String :=
  let ps := ",".intercalate ((sortPairs st.parentsReady).map (fun p => s!"{p.1}:{p.2}"))
  let pb := match st.pendingBlock with | some b => s!"{b.hash}:{b.pslot}:{b.phash}" | none => "-"
  s!"{s}=v{bStr st.voted}n{optStr st.votedNotar}b{bStr st.badWindow}c{optStr st.blockNotarized}p[{ps}]x{bStr st.receivedShred}q{pb}r{bStr st.retired}"

def diffStr (old new : Slots) : List String :=
  let removed := old.filterMap (fun p => if (lookup new p.1).isNone then some s!"-{p.1}" else none)
  let changed := new.filterMap (fun p => if lookup old p.1 = some p.2 then none else some (stStr p.1 p.2))
  removed ++ changed

def parseEvent : List String → Option Event
  | ["pr", s, ps, ph] => some (.parentReady (nat! s) (nat! ps) (nat! ph))
  | ["s2n", s, h] => some (.safeToNotar (nat! s) (nat! h))
  | ["s2s", s] => some (.safeToSkip (nat! s))
  | ["cert", k, s, h] => some (.cert (kindOf k) (nat! s) (nat! h))
  | "ss" :: s :: ids => some (.standstill (nat! s) (nats ids))
  | ["fs", s] => some (.firstShred (nat! s))
  | ["ib", s] => some (.invalidBlock (nat! s))
  | ["blk", s, h, ps, ph] => some (.block (nat! s) ⟨nat! h, nat! ps, nat! ph⟩)
  | ["to", s] => some (.timeout (nat! s))
  | ["tc", s] => some (.timeoutCrashed (nat! s))
  | _ => none

def render (old new : V) : String :=
  let fresh := ((new.log.take (new.log.length - old.log.length)).reverse).filterMap
    (fun | .out o => some o | .ev _ => none)
  let outs := (fresh.filter (fun o => !isTimer o)) ++ fresh.filter isTimer
  let o := ",".intercalate (outs.map outStr)
  let d := " ".intercalate (diffStr old.slots new.slots)
  let base := s!"{o} | h{new.hfcs} | {d}"
  if new.panicked then base ++ " | panic" else base

def stepD (st : V) (ws : List String) : V × List String :=
  match ws with
  | "case" :: k :: _ => (init, [s!"case {k}"])
  | ["new"] => (init, [render { init with log := [], slots := [] } init])
  | _ =>
    match parseEvent ws with
    | some e => let st' := step st e; (st', [render st st'])
    | none => (st, ["bad-op"])

def main : IO Unit := runDriver init stepD
