import Driver.Util
import AgModel.Model.NodeGlue
/-!
Driver of the node-glue correspondence (`harness/src/bin/ng.rs`, part `ng` of C16). One output line per op:

  shred R n slot own relay verdict ty flagged bs            Rotor node `own` of `n`; `relay` = committee[shred]
  shred T n slot own f     verdict ty flagged bs p0 … p(n-1) Turbine node, fanout f, order p
  a2a k valid res [kind slot]*                               k: 0 vote 1 cert; res: 0 ok 1 slashable 2 other;
                                                             then the certificates the (twin) pool newly stored during the
                                                             call, kind: 0 notar 1 nf 2 skip 3 ff 4 final.
                                                             State: the Votor's highest_final_cert_slot (reset by `case`).

verdict: 0 ok, 1 equivocation, 2 invalid signature; ty: has_expected_type; flagged: slot flagged before;
bs: 0 Err, 1 Ok(None), 2 Ok(Some(block)). Output: the rendered observable effects in order.
-/
open Driver AgModel.NodeGlue AgModel

def verdictOf : Nat → Verdict
  | 0 => .ok
  | 1 => .equivocation
  | _ => .invalidSignature

def bsOf : Nat → BsRes
  | 0 => .err
  | 1 => .stored
  | _ => .block

def kindOf : Nat → CertKind
  | 0 => .notar
  | 1 => .notarFallback
  | 2 => .skip
  | 3 => .fastFinal
  | _ => .final

def certsOf : List Nat → List CertRef
  | k :: s :: rest => ⟨kindOf k, s⟩ :: certsOf rest
  | _ => []

def step (st : Nat) (ws : List String) : Nat × List String :=
  match ws with
  | "case" :: k :: _ => (0, [s!"case {k}"])
  | "shred" :: "R" :: rest =>
    match nats rest with
    | [n, slot, own, relay, v, ty, fl, bs] =>
      let ldr := Route.leader n slot
      let i : ShredIn := ⟨verdictOf v, ty != 0, Route.rotorForward n ldr own [relay] 0, decide (ldr = own), bsOf bs⟩
      (st, [render (fl != 0) (handleShred i)])
    | _ => (st, ["bad-op"])
  | "shred" :: "T" :: rest =>
    match nats rest with
    | n :: slot :: own :: f :: v :: ty :: fl :: bs :: perm =>
      let ldr := Route.leader n slot
      let i : ShredIn := ⟨verdictOf v, ty != 0, Route.turbineForward perm f own, decide (ldr = own), bsOf bs⟩
      (st, [render (fl != 0) (handleShred i)])
    | _ => (st, ["bad-op"])
  | "a2a" :: rest =>
    match nats rest with
    | k :: valid :: res :: created =>
      let r := a2aNode (if k = 0 then .vote else .cert) (valid != 0) (match res with | 0 => .ok | 1 => .slashable | _ => .otherErr)
        (certsOf created) st
      (r.2, [renderNode r.1])
    | _ => (st, ["bad-op"])
  | _ => (st, ["bad-op"])

def main : IO Unit := runDriver (0 : Nat) step
