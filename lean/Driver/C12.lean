import Driver.Util
import AgModel.Exec.ShredEnv
import AgModel.Model.ShredGate
/-! Driver for C12: executes the ops of `harness/src/bin/c12.rs` on `AgModel.Shred.validate` and the
    equivocation gate (`Model/ShredGate.lean`), with the toy `Env` of `AgModel/Exec/ShredEnv.lean`.

    ops
      mk <set> <key> slot idx last hasParent pslot hseed len a b      -> `ok`        (regular shredder, leader key <key>)
      val <set> <i> <cache: - | set2> <pk> muts…                      -> `ok` | `InvalidSignature` | `Equivocation` | `undecodable`
      bs_new                                                         -> `ok`
      bs_add <set> <i> <c|n> <pk> muts…                              -> `rej <verdict>` | `pass flag <0|1>` | `Equivocation flag 1` | `InvalidShred flag 1`
        (`c`: validate with the blockstore's cached commitment as the node does; `n`: validate without cache)
      node_new                                                       -> `ok`        (a real node, not the leader of the slot)
      node <set> <i> <leader pk> muts…                               -> `done` | `undecodable`   (Alpenglow::handle_disseminator_shred once)
      probe <set> <i>                                                -> `pass` | `Equivocation` | `InvalidShred`  (add_shred_from_dissemination on the node's blockstore)
    muts: slot n | idx n | last n | tag n | sidx n | dat pos | dlen m|p | sig junk | sig set j | pe l junk k |
          pe l set j l2 | plen n | ppush k
-/
open AgModel.Shred AgModel.Merkle Driver AgModel.Exec.ShredEnv

structure St where
  sets : List (Nat × List VShred) := []
  gate : Gate := {}

def St.get (st : St) (set i : Nat) : VShred := (((st.sets.find? (·.1 == set)).map (·.2)).getD []).getD i default

/-- applies the mutations; `none` = the wire image no longer decodes -/
def mutate (st : St) : Shred → List String → Option Shred
  | s, "slot" :: n :: r => mutate st { s with header := { s.header with slot := nat! n } } r
  | s, "idx" :: n :: r => if nat! n ≥ 1024 then none else mutate st { s with header := { s.header with sliceIdx := nat! n } } r
  | s, "last" :: n :: r => if nat! n ≥ 2 then none else mutate st { s with header := { s.header with isLast := nat! n == 1 } } r
  | s, "tag" :: n :: r => if nat! n ≥ 2 then none else mutate st { s with isData := nat! n == 0 } r
  | s, "sidx" :: n :: r => if nat! n ≥ 64 then none else mutate st { s with index := nat! n } r
  | s, "dat" :: p :: r => mutate st { s with data := s.data.set (nat! p) (s.data.getD (nat! p) 0 + 1) } r
  | s, "dlen" :: "m" :: r => mutate st { s with data := s.data.dropLast } r
  | s, "dlen" :: "p" :: r => mutate st { s with data := s.data ++ [0] } r
  | s, "sig" :: "junk" :: r => mutate st { s with sig := .junk 1 } r
  | s, "sig" :: set :: j :: r => mutate st { s with sig := (st.get (nat! set) (nat! j)).shred.sig } r
  | s, "pe" :: l :: "junk" :: k :: r => mutate st { s with path := s.path.set (nat! l) (.junk (nat! k + 1)) } r
  | s, "pe" :: l :: set :: j :: l2 :: r =>
    mutate st { s with path := s.path.set (nat! l) ((st.get (nat! set) (nat! j)).shred.path.getD (nat! l2) (.junk 0)) } r
  | s, "plen" :: n :: r => mutate st { s with path := s.path.take (nat! n) } r
  | s, "ppush" :: k :: r => mutate st { s with path := s.path ++ [.junk (nat! k + 1)] } r
  | s, _ => some s

def verr : VErr → String
  | .invalidSignature => "InvalidSignature"
  | .equivocation => "Equivocation"

def step (st : St) (ws : List String) : St × List String :=
  match ws with
  | "case" :: k :: _ => ({}, [s!"case {k}"])
  | "mk" :: set :: key :: slot :: idx :: last :: hasP :: pslot :: hseed :: len :: a :: b :: _ =>
    let sl := mkSlice (nat! slot) (nat! idx) (nat! last) (nat! hasP) (nat! pslot) (nat! hseed) (nat! len) (nat! a) (nat! b) []
    match shred toyEnv .regular sl (nat! key) (keyOf 0) with
    | .ok out => ({ st with sets := (nat! set, out) :: st.sets }, ["ok"])
    | _ => (st, ["err"])
  | "val" :: set :: i :: cache :: pk :: muts =>
    let cached := if cache == "-" then none else some (st.get (nat! cache) 0).commitment
    match mutate st (st.get (nat! set) (nat! i)).shred muts with
    | none => (st, ["undecodable"])
    | some s =>
      match validate toyEnv s cached (nat! pk) with
      | .ok _ => (st, ["ok"])
      | .error e => (st, [verr e])
  | ["bs_new"] => ({ st with gate := {} }, ["ok"])
  | "bs_add" :: set :: i :: mode :: pk :: muts =>
    match mutate st (st.get (nat! set) (nat! i)).shred muts with
    | none => (st, ["rej undecodable"])
    | some s =>
      let cached := if mode == "c" then st.gate.cached s.header.sliceIdx else none
      match validate toyEnv s cached (nat! pk) with
      | .error e => (st, [s!"rej {verr e}"])
      | .ok v =>
        let (g, verdict) := st.gate.add v
        let flag := if g.misbehaved then 1 else 0
        let out := match verdict with
          | .pass => s!"pass flag {flag}"
          | .equivocation => s!"Equivocation flag {flag}"
          | .invalidShred => s!"InvalidShred flag {flag}"
        ({ st with gate := g }, [out])
  | ["node_new"] => ({ st with gate := {} }, ["ok"])
  | "node" :: set :: i :: pk :: muts =>
    match mutate st (st.get (nat! set) (nat! i)).shred muts with
    | none => (st, ["undecodable"])
    | some s => ({ st with gate := st.gate.nodeHandle toyEnv s (nat! pk) }, ["done"])
  | ["probe", set, i] =>
    let (g, verdict) := st.gate.add (st.get (nat! set) (nat! i))
    let out := match verdict with
      | .pass => "pass"
      | .equivocation => "Equivocation"
      | .invalidShred => "InvalidShred"
    ({ st with gate := g }, [out])
  | _ => (st, ["bad-op"])

def main : IO Unit := runDriver ({} : St) step
